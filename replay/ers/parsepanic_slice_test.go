package ers

import (
	"errors"
	"testing"
)

// Replay of ParsePanic/post(slicepanic): a panic whose value is a []error is
// converted without ErrRecoveredPanic, and an empty slice turns into nil (the
// panic disappears).
func TestVerifParsePanicErrorSlice(t *testing.T) {
	if err := ParsePanic([]error{}); err == nil {
		t.Errorf("ParsePanic([]error{}) == nil: the panic is swallowed")
	}
	err := ParsePanic([]error{New("one")})
	if !errors.Is(err, ErrRecoveredPanic) {
		t.Errorf("ParsePanic([]error{one}) = %v does not report ErrRecoveredPanic", err)
	}
	got := WithRecoverCall(func() { panic([]error{}) })
	if got == nil {
		t.Errorf("WithRecoverCall(panic([]error{})) returned nil")
	}
}
