package erc

import (
	"context"
	"errors"
	"sync"
	"testing"
)

// Replay of erc.(*Collector).Iterator/guarded-escape: the iterator's producer
// walks the collector's stack starting at &ec.stack - mutex-protected memory
// that Add rewrites under the lock - after Iterator has released the lock.
// Run with -race.
func TestVerifCollectorIteratorEscapes(t *testing.T) {
	ec := &Collector{}
	ec.Add(errors.New("first"))
	ec.Add(errors.New("second"))
	iter := ec.Iterator()
	var wg sync.WaitGroup
	wg.Add(2)
	go func() {
		defer wg.Done()
		for i := 0; i < 500; i++ {
			ec.Add(errors.New("more"))
		}
	}()
	go func() {
		defer wg.Done()
		ctx := context.Background()
		n := 0
		for iter.Next(ctx) {
			n++
			if n > 100000 {
				break
			}
		}
	}()
	wg.Wait()
}
