package erc

import (
	"errors"
	"sync"
	"testing"
)

// Replay of Resolve/guarded-escape: Resolve returns &ec.stack, memory that
// later Add calls mutate under the collector's mutex while the caller reads
// the returned error without it. Run with -race.
func TestVerifCollectorResolveEscapes(t *testing.T) {
	ec := &Collector{}
	ec.Add(errors.New("first"))
	ec.Add(errors.New("second"))
	err := ec.Resolve() // the aggregate, as any caller of Resolve would hold it
	var wg sync.WaitGroup
	wg.Add(2)
	go func() {
		defer wg.Done()
		for i := 0; i < 200; i++ {
			ec.Add(errors.New("more"))
		}
	}()
	go func() {
		defer wg.Done()
		for i := 0; i < 200; i++ {
			_ = err.Error()
			_ = errors.Is(err, errors.ErrUnsupported)
		}
	}()
	wg.Wait()
}
