package pubsub

import (
	"context"
	"errors"
	"testing"
	"time"
)

// Replays of the failing C07 obligations on the real Deque.

// waitPop/call-pre((*element).wait: takes): WaitFront / WaitBack on a
// NON-empty deque must not block (the condition already holds). The defective
// code waited on the element at the requested end until its neighbour changed.
func TestVerifDequeWaitOnNonEmptyDoesNotBlock(t *testing.T) {
	for _, back := range []bool{false, true} {
		dq, err := NewDeque[int](DequeOptions{Capacity: 8})
		if err != nil {
			t.Fatal(err)
		}
		for i := 1; i <= 3; i++ {
			if err := dq.PushBack(i); err != nil {
				t.Fatal(err)
			}
		}
		ctx, cancel := context.WithTimeout(context.Background(), 700*time.Millisecond)
		start := time.Now()
		var v int
		if back {
			v, err = dq.WaitBack(ctx)
		} else {
			v, err = dq.WaitFront(ctx)
		}
		cancel()
		want := 1
		if back {
			want = 3
		}
		if err != nil || v != want {
			t.Fatalf("back=%v: Wait on a deque holding 3 items returned (%d, %v) after %v; want (%d, nil) at once", back, v, err, time.Since(start), want)
		}
		if d := time.Since(start); d > 300*time.Millisecond {
			t.Fatalf("back=%v: Wait on a non-empty deque blocked for %v", back, d)
		}
	}
}

// Deque.Close/lockinv-unlock(dwkF, dwkB, dwkU): Close must wake blocked
// consumers and producers; they return ErrQueueClosed, not a context error.
func TestVerifDequeCloseWakesWaiters(t *testing.T) {
	dq, err := NewDeque[int](DequeOptions{Capacity: 1})
	if err != nil {
		t.Fatal(err)
	}
	ctx, cancel := context.WithTimeout(context.Background(), 2*time.Second)
	defer cancel()
	errs := make(chan error, 3)
	go func() { _, err := dq.WaitFront(ctx); errs <- err }()
	go func() { _, err := dq.WaitBack(ctx); errs <- err }()
	time.Sleep(150 * time.Millisecond)
	start := time.Now()
	_ = dq.Close()
	for i := 0; i < 2; i++ {
		select {
		case err := <-errs:
			if !errors.Is(err, ErrQueueClosed) {
				t.Fatalf("waiter %d returned %v after Close, want ErrQueueClosed", i, err)
			}
		case <-time.After(time.Second):
			t.Fatalf("waiter %d still blocked %v after Close", i, time.Since(start))
		}
	}
}

// addAfter/post(dwkB): a consumer blocked in WaitBack on an empty deque must be
// woken by a push (at either end).
func TestVerifDequePushWakesWaitBack(t *testing.T) {
	for _, front := range []bool{false, true} {
		dq, err := NewDeque[int](DequeOptions{Capacity: 4})
		if err != nil {
			t.Fatal(err)
		}
		ctx, cancel := context.WithTimeout(context.Background(), 2*time.Second)
		got := make(chan error, 1)
		go func() { _, err := dq.WaitBack(ctx); got <- err }()
		time.Sleep(150 * time.Millisecond)
		if front {
			err = dq.PushFront(7)
		} else {
			err = dq.PushBack(7)
		}
		if err != nil {
			t.Fatal(err)
		}
		select {
		case err := <-got:
			if err != nil {
				t.Fatalf("front=%v: WaitBack returned %v although an item was pushed", front, err)
			}
		case <-time.After(time.Second):
			t.Fatalf("front=%v: WaitBack slept through a push", front)
		}
		cancel()
	}
}
