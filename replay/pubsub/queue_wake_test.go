package pubsub

import (
	"context"
	"errors"
	"testing"
	"time"
)

// Replays of the failing C07 obligations on the real Queue.

// doAdd/post(wNE > 0 ==> sNE >= len(view)): two consumers parked in Wait, two
// items added before either woken consumer gets the lock. Both items are
// queued, so both consumers must return an item.
func TestVerifQueueTwoAddsTwoWaiters(t *testing.T) {
	q := NewUnlimitedQueue[int]()
	ctx, cancel := context.WithTimeout(context.Background(), 3*time.Second)
	defer cancel()
	got := make(chan int, 2)
	for i := 0; i < 2; i++ {
		go func() {
			v, err := q.Wait(ctx)
			if err != nil {
				v = -1
			}
			got <- v
		}()
	}
	time.Sleep(200 * time.Millisecond) // both consumers are parked on nempty
	q.mu.Lock()                        // schedule: both Adds complete before a woken consumer re-acquires the lock
	_ = q.doAdd(1)
	_ = q.doAdd(2)
	q.mu.Unlock()
	deadline := time.After(1500 * time.Millisecond)
	for i := 0; i < 2; i++ {
		select {
		case v := <-got:
			if v < 0 {
				t.Fatalf("consumer %d returned a context error although an item was queued", i)
			}
		case <-deadline:
			t.Fatalf("lost wake-up: consumer still blocked in Wait with Len()=%d", q.Len())
		}
	}
}

// BlockingAdd/park-while-enabled: a producer blocked on a full queue must
// return when the queue is closed.
func TestVerifQueueBlockingAddClose(t *testing.T) {
	q, err := NewQueue[int](QueueOptions{HardLimit: 1, SoftQuota: 1})
	if err != nil {
		t.Fatal(err)
	}
	if err := q.Add(1); err != nil {
		t.Fatal(err)
	}
	ctx, cancel := context.WithTimeout(context.Background(), 3*time.Second)
	defer cancel()
	res := make(chan error, 1)
	go func() { res <- q.BlockingAdd(ctx, 2) }()
	time.Sleep(200 * time.Millisecond) // producer parked on nupdates
	_ = q.Close()
	select {
	case err := <-res:
		if !errors.Is(err, ErrQueueClosed) {
			t.Fatalf("BlockingAdd on a closed queue returned %v", err)
		}
	case <-time.After(1500 * time.Millisecond):
		t.Fatal("BlockingAdd still blocked 1.5s after Close")
	}
}

// doAdd/post(iterwake): two non-destructive iterators parked at the tail; one
// Add must wake both (each has an unseen item).
func TestVerifQueueTwoIteratorsOneAdd(t *testing.T) {
	q := NewUnlimitedQueue[int]()
	ctx, cancel := context.WithTimeout(context.Background(), 3*time.Second)
	defer cancel()
	got := make(chan int, 2)
	for i := 0; i < 2; i++ {
		p := q.Producer()
		go func() {
			v, err := p(ctx)
			if err != nil {
				v = -1
			}
			got <- v
		}()
	}
	time.Sleep(200 * time.Millisecond)
	if err := q.Add(7); err != nil {
		t.Fatal(err)
	}
	deadline := time.After(1500 * time.Millisecond)
	for i := 0; i < 2; i++ {
		select {
		case v := <-got:
			if v != 7 {
				t.Fatalf("iterator %d returned %d", i, v)
			}
		case <-deadline:
			t.Fatal("an iterator is still blocked although an unseen item is queued")
		}
	}
}

// doAdd/post(iterwake): nupdates has two kinds of waiters (blocked producers
// and iterators) but doAdd wakes only one of them with Signal. A producer
// parked before the iterator swallows the notification, finds the queue still
// above its soft quota and parks again; the iterator sleeps although an item
// it has not seen is queued.
func TestVerifQueueIteratorSignalStolenByProducer(t *testing.T) {
	q, err := NewQueue[int](QueueOptions{HardLimit: 8, SoftQuota: 1, BurstCredit: 4})
	if err != nil {
		t.Fatal(err)
	}
	if err := q.Add(1); err != nil {
		t.Fatal(err)
	}
	ctx, cancel := context.WithTimeout(context.Background(), 3*time.Second)
	defer cancel()
	go func() { _ = q.BlockingAdd(ctx, 99) }() // cap()=softQuota=1 <= len=1: parks first
	time.Sleep(200 * time.Millisecond)
	p := q.Producer()
	if v, err := p(ctx); err != nil || v != 1 {
		t.Fatalf("first item: %v %v", v, err)
	}
	got := make(chan int, 1)
	go func() {
		v, err := p(ctx) // at the tail: parks second
		if err != nil {
			v = -1
		}
		got <- v
	}()
	time.Sleep(200 * time.Millisecond)
	if err := q.Add(2); err != nil { // admitted on burst credit
		t.Fatal(err)
	}
	select {
	case v := <-got:
		if v != 2 {
			t.Fatalf("iterator returned %d, want 2", v)
		}
	case <-time.After(1500 * time.Millisecond):
		t.Fatalf("iterator still blocked 1.5s after an unseen item was added (Len=%d)", q.Len())
	}
}
