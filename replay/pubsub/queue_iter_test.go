package pubsub

import (
	"context"
	"fmt"
	"testing"
	"time"
)

// Replay of pubsub.(*Queue).Producer$1/nil-deref(next): the iterator's cursor
// stands on the last entry; the iterator waits for news; a concurrent Remove
// empties the queue (q.back changes, waitForNew returns); the producer then
// follows cursor.link, which is nil, and dereferences it.
func TestVerifQueueIteratorSurvivesRemoveOfCursor(t *testing.T) {
	q := NewUnlimitedQueue[int]()
	if err := q.Add(1); err != nil {
		t.Fatal(err)
	}
	prod := q.Producer()
	ctx, cancel := context.WithTimeout(context.Background(), 2*time.Second)
	defer cancel()
	if v, err := prod(ctx); err != nil || v != 1 {
		t.Fatalf("first item: %d %v", v, err)
	}
	type res struct {
		v   int
		err error
		p   any
	}
	out := make(chan res, 1)
	go func() {
		defer func() {
			if p := recover(); p != nil {
				out <- res{p: p}
			}
		}()
		v, err := prod(ctx) // nothing new: waits
		out <- res{v: v, err: err}
	}()
	time.Sleep(150 * time.Millisecond)
	if v, ok := q.Remove(); !ok || v != 1 {
		t.Fatalf("Remove: %d %v", v, ok)
	}
	time.Sleep(150 * time.Millisecond)
	if err := q.Add(2); err != nil {
		t.Fatal(err)
	}
	_ = q.Close()
	select {
	case r := <-out:
		if r.p != nil {
			t.Fatalf("iterator panicked under a concurrent Remove: %v", r.p)
		}
		if r.err == nil && r.v != 2 {
			t.Fatalf("iterator invented a value: %d", r.v)
		}
	case <-time.After(3 * time.Second):
		t.Fatal("iterator did not return after Close")
	}
}

// The iterator must not sleep through an Add that lands between its look at
// the cursor's link and its wait (cursor-based waiting): an Add made under the
// lock right before the iterator parks is seen.
func TestVerifQueueIteratorSeesEveryAdd(t *testing.T) {
	q := NewUnlimitedQueue[int]()
	prod := q.Producer()
	ctx, cancel := context.WithTimeout(context.Background(), 3*time.Second)
	defer cancel()
	got := make(chan string, 8)
	go func() {
		for {
			v, err := prod(ctx)
			if err != nil {
				got <- "end"
				return
			}
			got <- fmt.Sprint(v)
		}
	}()
	for i := 1; i <= 5; i++ {
		_ = q.Add(i)
		select {
		case s := <-got:
			if s != fmt.Sprint(i) {
				t.Fatalf("iterator yielded %s, want %d", s, i)
			}
		case <-time.After(time.Second):
			t.Fatalf("iterator stayed blocked although item %d was added", i)
		}
	}
	_ = q.Close()
}
