package pubsub

import (
	"sync"
	"testing"
)

// Replay of pubsub.(*Queue).Distributor/guarded-escape: the distributor's Len
// was wired to the method value q.tracker.len, which reads the tracker without
// q.mu while Add mutates it under q.mu. Run with -race: the detector reports
// the race on the unfixed tree.
func TestVerifQueueDistributorLenIsLocked(t *testing.T) {
	q := NewUnlimitedQueue[int]()
	d := q.Distributor()
	var wg sync.WaitGroup
	wg.Add(2)
	go func() {
		defer wg.Done()
		for i := 0; i < 2000; i++ {
			_ = q.Add(i)
		}
	}()
	go func() {
		defer wg.Done()
		n := 0
		for i := 0; i < 2000; i++ {
			n += d.Len()
		}
		_ = n
	}()
	wg.Wait()
}
