package fun

import (
	"context"
	"errors"
	"testing"
)

// Replay of CanContinueOnError/post(notrecorded): an error listed in
// ExcludedErrors must never be reported.
func TestVerifExcludedErrorsNotReported(t *testing.T) {
	excluded := errors.New("excluded failure")
	var seen []error
	conf := WorkerGroupConf{
		ContinueOnError: true,
		ExcludedErrors:  []error{excluded},
		ErrorHandler:    func(err error) { seen = append(seen, err) },
	}
	cont := conf.CanContinueOnError(excluded)
	if len(seen) != 0 {
		t.Errorf("excluded error was handed to the error handler: %v", seen)
	}
	if !cont {
		t.Errorf("ContinueOnError is set but the group stops on an excluded error")
	}

	// through the public API
	ctx, cancel := context.WithCancel(context.Background())
	defer cancel()
	iter := SliceIterator([]int{1, 2, 3, 4, 5, 6})
	err := iter.ProcessParallel(
		func(ctx context.Context, in int) error {
			if in == 3 {
				return excluded
			}
			return nil
		},
		WorkerGroupConfNumWorkers(2),
		WorkerGroupConfContinueOnError(),
		WorkerGroupConfAddExcludeErrors(excluded),
	).Run(ctx)
	if err != nil {
		t.Errorf("ProcessParallel reported an excluded error: %v", err)
	}
}
