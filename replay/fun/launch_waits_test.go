package fun

import (
	"context"
	"sync/atomic"
	"testing"
	"time"
)

// Replay of fun.(Operation).Launch$1/post(waited): the operation returned by
// Operation.Launch must not complete before the background execution has
// (unless its own context ended). The defective closure built the waiting
// operation (WaitChannel(sig)) and never ran it.
func TestVerifOperationLaunchWaits(t *testing.T) {
	ctx, cancel := context.WithCancel(context.Background())
	defer cancel()
	var finished atomic.Bool
	release := make(chan struct{})
	op := Operation(func(context.Context) { <-release; finished.Store(true) })
	waiter := op.Launch(ctx)
	returned := make(chan bool, 1)
	go func() { waiter(ctx); returned <- finished.Load() }()
	select {
	case done := <-returned:
		if !done {
			t.Fatal("the waiter returned by Operation.Launch completed while the background operation was still running")
		}
	case <-time.After(200 * time.Millisecond):
		// still waiting: correct
	}
	close(release)
	select {
	case done := <-returned:
		if !done {
			t.Fatal("waiter returned before the operation finished")
		}
	case <-time.After(2 * time.Second):
		t.Fatal("waiter never returned")
	}
}
