package fun

import (
	"context"
	"errors"
	"sync/atomic"
	"testing"
	"time"
)

// Same wiring defect as TestVerifAbortBoundsItemsStartedAfterFailure, at the
// two other worker groups: Map (Transform.ProcessParallel) and
// Producer.GenerateParallel. Without ContinueOnError the failing worker must
// cancel the group.
func TestVerifMapAbortBoundsItemsStartedAfterFailure(t *testing.T) {
	const total, workers = 400, 4
	items := make([]int, total)
	for i := range items {
		items[i] = i
	}
	boom := errors.New("boom")
	var failedReturned atomic.Bool
	var startedAfter atomic.Int64
	out := Map(SliceIterator(items), func(ctx context.Context, in int) (int, error) {
		if failedReturned.Load() {
			startedAfter.Add(1)
		}
		if in == 0 {
			time.Sleep(5 * time.Millisecond)
			failedReturned.Store(true)
			return 0, boom
		}
		time.Sleep(200 * time.Microsecond)
		return in, nil
	}, WorkerGroupConfNumWorkers(workers))
	ctx := context.Background()
	for out.Next(ctx) {
	}
	if err := out.Close(); !errors.Is(err, boom) {
		t.Fatalf("the failure was not reported: %v", err)
	}
	if n := startedAfter.Load(); n > 2*workers {
		t.Fatalf("Map: %d of %d items were started after the first failure had returned (workers=%d)", n, total, workers)
	}
}

func TestVerifGenerateAbortBoundsCallsAfterFailure(t *testing.T) {
	const workers = 4
	boom := errors.New("boom")
	var calls, after atomic.Int64
	var failedReturned atomic.Bool
	prod := Producer[int](func(ctx context.Context) (int, error) {
		n := calls.Add(1)
		if failedReturned.Load() {
			after.Add(1)
		}
		if n == 3 {
			time.Sleep(5 * time.Millisecond)
			failedReturned.Store(true)
			return 0, boom
		}
		if n > 400 {
			return 0, context.Canceled
		}
		time.Sleep(200 * time.Microsecond)
		return int(n), nil
	})
	out := prod.GenerateParallel(WorkerGroupConfNumWorkers(workers))
	ctx, cancel := context.WithTimeout(context.Background(), 3*time.Second)
	defer cancel()
	for out.Next(ctx) {
	}
	_ = out.Close()
	if n := after.Load(); n > 4*workers {
		t.Fatalf("GenerateParallel: the generator was called %d more times after its first failure had returned (workers=%d)", n, workers)
	}
}
