package fun

import (
	"context"
	"errors"
	"sync/atomic"
	"testing"
	"time"
)

// Replay of fun.(*Iterator).ProcessParallel$1$1/post(aborts): without
// ContinueOnError, the number of items started after the first failure has
// returned must be bounded by the number of workers - the failing worker has to
// cancel the group. On the defective tree the abort is turned into io.EOF,
// ReadAll maps io.EOF to nil, the observer that was meant to cancel the group
// only looks for io.EOF, and the rest of the input is consumed.
func TestVerifAbortBoundsItemsStartedAfterFailure(t *testing.T) {
	const total, workers = 400, 4
	items := make([]int, total)
	for i := range items {
		items[i] = i
	}
	boom := errors.New("boom")
	var failedReturned atomic.Bool
	var startedAfter atomic.Int64
	proc := Processor[int](func(ctx context.Context, in int) error {
		if failedReturned.Load() {
			startedAfter.Add(1)
		}
		if in == 0 {
			// give the other workers time to be mid-item, then fail
			time.Sleep(5 * time.Millisecond)
			failedReturned.Store(true)
			return boom
		}
		time.Sleep(200 * time.Microsecond)
		return nil
	})
	err := SliceIterator(items).ProcessParallel(proc, WorkerGroupConfNumWorkers(workers)).Run(context.Background())
	if !errors.Is(err, boom) {
		t.Fatalf("the failure was not reported: %v", err)
	}
	if n := startedAfter.Load(); n > 2*workers {
		t.Fatalf("%d of %d items were started after the first failure had returned (workers=%d): the group was not cancelled", n, total, workers)
	}
}
