//go:build verif

package srv

import (
	"context"
	"testing"
	"time"
)

// Replays of the failing C10 obligations on the real Service, with the yield
// hooks (build tag verif) placing the interfering steps in the exact window.

// srv.(*Service).Start/post(restored): a second Start that passed the
// isFinished check before the service finished, and performs its Swap after
// the service has finished, must not return nil a second time nor leave the
// service marked as running.
func TestVerifSecondStartAfterFinish(t *testing.T) {
	release := make(chan struct{})
	second := make(chan error, 1)
	ctx := context.Background()
	defer verifHook.Store(func(string) {})
	block := make(chan struct{})
	s2 := &Service{Run: func(context.Context) error { <-block; return nil }}
	verifHook.Store(func(string) {})
	if err := s2.Start(ctx); err != nil {
		t.Fatal(err)
	}
	verifHook.Store(func(point string) {
		if point == "srv.Service.Start.checked" {
			<-release
		}
	})
	go func() { second <- s2.Start(ctx) }()
	time.Sleep(100 * time.Millisecond) // second Start is parked after its isFinished check
	close(block)                       // the service finishes
	if err := s2.Wait(); err != nil {
		t.Fatal(err)
	}
	close(release) // now the parked Start performs its Swap
	err := <-second
	if err == nil {
		t.Errorf("a second Start returned nil after the service had finished (Run would not run again)")
	}
	time.Sleep(50 * time.Millisecond)
	if s2.Running() {
		t.Errorf("Running() is true after the service finished and Wait returned (second Start left isRunning set)")
	}
}

// srv.(*Service).Start/protocol-inv(after isRunning.Store): Run finishes
// before Start returns; the starter's deferred isRunning.Store(true) then
// overwrites the false stored by the finished service.
func TestVerifRunFinishesBeforeStartReturns(t *testing.T) {
	finished := make(chan struct{})
	s := &Service{Run: func(context.Context) error { return nil }}
	verifHook.Store(func(point string) {
		if point == "srv.Service.Start.launched" {
			// the service goroutines run to completion while the starter is here
			deadline := time.After(3 * time.Second)
			for !s.isFinished.Load() || s.isRunning.Load() {
				select {
				case <-deadline:
					return
				default:
					time.Sleep(time.Millisecond)
				}
			}
			close(finished)
		}
	})
	defer verifHook.Store(func(string) {})
	if err := s.Start(context.Background()); err != nil {
		t.Fatal(err)
	}
	select {
	case <-finished:
	default:
		t.Skip("service did not finish inside the window")
	}
	if err := s.Wait(); err != nil {
		t.Fatal(err)
	}
	if s.Running() {
		t.Errorf("Running() is true after Wait returned: the starter's deferred isRunning.Store(true) overwrote the finished service's false")
	}
}
