package hdrhist

import "testing"

// Replay of the failing obligation New/post(geom(result)): the solver's model
// has maxValue equal to smallestUntrackableValue (a bucket boundary, e.g. a
// power of two). Recording max itself must succeed for every valid shape.
func TestVerifNewMaxAtBucketBoundary(t *testing.T) {
	for _, c := range []struct {
		min, max int64
		sig      int
	}{
		{9, 1 << 42, 4}, // the solver's model
		{1, 1 << 40, 1},
		{1, 1 << 20, 3},
		{1000, 1 << 30, 2},
	} {
		h := New(c.min, c.max, c.sig)
		if err := h.RecordValue(c.max); err != nil {
			t.Errorf("New(%d, %d, %d).RecordValue(max) failed: %v", c.min, c.max, c.sig, err)
		}
	}
}
