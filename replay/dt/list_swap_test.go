package dt

import "testing"

func verifFwd(l *List[int]) []int {
	var out []int
	n := 0
	for e := l.root.next; e != l.root && e != nil; e = e.next {
		out = append(out, e.item)
		if n++; n > 50 {
			out = append(out, -999) // cycle / runaway
			break
		}
	}
	return out
}

func verifBwd(l *List[int]) []int {
	var out []int
	n := 0
	for e := l.root.prev; e != l.root && e != nil; e = e.prev {
		out = append([]int{e.item}, out...)
		if n++; n > 50 {
			out = append([]int{-999}, out...)
			break
		}
	}
	return out
}

func verifSame(a, b []int) bool {
	if len(a) != len(b) {
		return false
	}
	for i := range a {
		if a[i] != b[i] {
			return false
		}
	}
	return true
}

func verifMk(vals ...int) (*List[int], []*Element[int]) {
	l := &List[int]{}
	var es []*Element[int]
	for _, v := range vals {
		l.PushBack(v)
		es = append(es, l.Back())
	}
	return l, es
}

// Replay of Swap's failing obligations: after a successful Swap forward
// traversal, backward traversal and Len must agree with the slice model with
// the two positions exchanged; swapping with the root sentinel is rejected.
func TestVerifListSwap(t *testing.T) {
	for _, c := range []struct {
		name string
		i, j int
		want []int
	}{
		{"apart", 1, 3, []int{1, 4, 3, 2}},
		{"adjacent e before with", 1, 2, []int{1, 3, 2, 4}},
		{"adjacent with before e", 2, 1, []int{1, 3, 2, 4}},
		{"ends", 0, 3, []int{4, 2, 3, 1}},
	} {
		l, es := verifMk(1, 2, 3, 4)
		ok := es[c.i].Swap(es[c.j])
		if !ok {
			t.Errorf("%s: Swap refused", c.name)
		}
		if f, b := verifFwd(l), verifBwd(l); !verifSame(f, c.want) || !verifSame(b, c.want) || l.Len() != 4 {
			t.Errorf("%s: forward %v backward %v len %d, want %v", c.name, f, b, l.Len(), c.want)
		}
	}
	l, es := verifMk(1, 2, 3)
	if es[1].Swap(l.root) || l.root.Swap(es[1]) {
		t.Errorf("swap with the root sentinel was accepted")
	}
	if f, b := verifFwd(l), verifBwd(l); !verifSame(f, []int{1, 2, 3}) || !verifSame(b, []int{1, 2, 3}) || l.Len() != 3 {
		t.Errorf("root swap changed the list: forward %v backward %v len %d", f, b, l.Len())
	}
}
