package dt

import "testing"

func stackValuesR[T any](s *Stack[T]) []T {
	var out []T
	for it := s.Head(); it.Ok(); it = it.Next() {
		out = append(out, it.Value())
	}
	return out
}

// C16: Remove unlinks the item and only then decrements Len.
func TestVerifStackItemRemove(t *testing.T) {
	s := &Stack[int]{}
	s.Push(1)
	s.Push(2)
	s.Push(3)
	mid := s.Head().Next() // 2
	if mid.Value() != 2 {
		t.Fatal("setup")
	}
	if !mid.Remove() {
		t.Fatal("remove refused")
	}
	vals := stackValuesR(s)
	if s.Len() != len(vals) {
		t.Fatalf("after removing 2 from [3 2 1]: Len=%d but the stack still iterates %v", s.Len(), vals)
	}
}
