package dt

import (
	"sync"
	"testing"
)

// C13: Equal reads the other (synchronized) set's order list without that set's
// mutex, while SortQuick on the other set installs the order list under it.
func TestVerifSetEqualReadsOtherUnlocked(t *testing.T) {
	for r := 0; r < 200; r++ {
		a, b := &Set[int]{}, &Set[int]{}
		a.Synchronize()
		b.Synchronize()
		for i := 0; i < 8; i++ {
			a.Add(i)
			b.Add(i)
		}
		wg := &sync.WaitGroup{}
		wg.Add(2)
		go func() { defer wg.Done(); b.SortQuick(func(x, y int) bool { return x < y }) }()
		go func() { defer wg.Done(); _ = a.Equal(b) }()
		wg.Wait()
	}
}
