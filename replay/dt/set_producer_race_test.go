package dt

import (
	"context"
	"sync"
	"testing"
)

// C13/C18: the producer handed out by a synchronized Set must hold the set's
// mutex while it walks the order list; concurrent Add calls mutate that list.
func TestVerifSyncSetProducerIsLocked(t *testing.T) {
	s := &Set[int]{}
	s.Order()
	s.Synchronize()
	for i := 0; i < 64; i++ {
		s.Add(i)
	}
	ctx := context.Background()
	wg := &sync.WaitGroup{}
	wg.Add(2)
	go func() {
		defer wg.Done()
		for i := 64; i < 4096; i++ {
			s.Add(i)
		}
	}()
	go func() {
		defer wg.Done()
		for r := 0; r < 50; r++ {
			p := s.Producer()
			for {
				if _, err := p(ctx); err != nil {
					break
				}
			}
		}
	}()
	wg.Wait()
}
