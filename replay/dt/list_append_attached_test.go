package dt

import "testing"

func verifSlice(l *List[int]) []int {
	var out []int
	n := 0
	for e := l.Front(); e.Ok() && e != l.root; e = e.Next() {
		out = append(out, e.Value())
		if n++; n > 100 {
			break
		}
	}
	return out
}

func verifBack(l *List[int]) []int {
	var out []int
	n := 0
	for e := l.Back(); e.Ok() && e != l.root; e = e.Previous() {
		out = append([]int{e.Value()}, out...)
		if n++; n > 100 {
			break
		}
	}
	return out
}

func verifEq(a, b []int) bool {
	if len(a) != len(b) {
		return false
	}
	for i := range a {
		if a[i] != b[i] {
			return false
		}
	}
	return true
}

// Replay of Append/call-pre(uncheckedAppend: new.list == nil): appending an
// element that already belongs to a list must be rejected and leave both
// lists unchanged.
func TestVerifListAppendAttachedElement(t *testing.T) {
	a, b := &List[int]{}, &List[int]{}
	a.PushBack(1)
	a.PushBack(2)
	b.PushBack(9)
	b.PushBack(8)
	e := b.Front()
	res := a.Front().Append(e)
	if res == e {
		t.Errorf("Append of an element attached to another list was accepted")
	}
	if !verifEq(verifSlice(a), []int{1, 2}) || !verifEq(verifBack(a), []int{1, 2}) || a.Len() != 2 {
		t.Errorf("list a changed: forward %v backward %v len %d", verifSlice(a), verifBack(a), a.Len())
	}
	if !verifEq(verifSlice(b), []int{9, 8}) || !verifEq(verifBack(b), []int{9, 8}) || b.Len() != 2 {
		t.Errorf("list b changed: forward %v backward %v len %d", verifSlice(b), verifBack(b), b.Len())
	}
	if !e.In(b) {
		t.Errorf("element no longer reports In(b)")
	}
}
