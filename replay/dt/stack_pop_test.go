package dt

import "testing"

func stackValues[T any](s *Stack[T]) []T {
	var out []T
	for it := s.Head(); it.Ok(); it = it.Next() {
		out = append(out, it.Value())
	}
	return out
}

// C16: a Pop on a never-used Stack must not disable later pushes.
func TestVerifStackPopThenPush(t *testing.T) {
	s := &Stack[int]{}
	if it := s.Pop(); it.Ok() {
		t.Fatal("pop of empty stack is ok")
	}
	s.Push(1)
	s.Push(2)
	if s.Len() != 2 || len(stackValues(s)) != 2 {
		t.Fatalf("after Pop on the zero stack, Push(1), Push(2): Len=%d values=%v", s.Len(), stackValues(s))
	}
}

