package dt

import (
	"context"
	"testing"
)

// An unordered, populated set that is sorted becomes ordered; the order
// elements created by forceSetupOrdered must be indexed by the hash, otherwise
// Delete leaves the value in the order list and the iterator keeps yielding it.
func TestVerifSetSortThenDelete(t *testing.T) {
	s := &Set[int]{}
	s.Add(3)
	s.Add(1)
	s.Add(2)
	s.SortQuick(func(a, b int) bool { return a < b })
	s.Delete(2)
	if s.Check(2) {
		t.Fatal("2 still a member")
	}
	var got []int
	it := s.Iterator()
	for it.Next(context.Background()) {
		got = append(got, it.Value())
	}
	if s.Len() != 2 || len(got) != 2 {
		t.Fatalf("after Delete(2): Len=%d iterator=%v (the deleted value is still yielded)", s.Len(), got)
	}
	for _, v := range got {
		if v == 2 {
			t.Fatalf("iterator yields the deleted value: %v", got)
		}
	}
}
