package dt

import "testing"

// C17: after SortMerge the list must remain fully usable.
func TestVerifSortMergeListUsable(t *testing.T) {
	l := &List[int]{}
	for _, v := range []int{3, 1, 2, 5, 4} {
		l.PushBack(v)
	}
	l.SortMerge(func(a, b int) bool { return a < b })
	if l.Len() != 5 {
		t.Fatalf("len %d", l.Len())
	}
	var got []int
	for e := l.Front(); e.Ok(); e = e.Next() {
		got = append(got, e.Value())
	}
	t.Log("after sort:", got)
	e := l.PopFront()
	if !e.Ok() || e.Value() != 1 {
		t.Fatalf("PopFront after SortMerge: ok=%v value=%v len=%d", e.Ok(), e.Value(), l.Len())
	}
	if l.Len() != 4 {
		t.Fatalf("len after pop %d", l.Len())
	}
	l.PushBack(9)
	if l.Back().Value() != 9 || l.Len() != 5 {
		t.Fatalf("PushBack after SortMerge: back=%v len=%d", l.Back().Value(), l.Len())
	}
	if !l.Front().Remove() || l.Len() != 4 {
		t.Fatalf("Remove after SortMerge failed: len=%d", l.Len())
	}
}
