package dt

import "testing"

// Replay of dt.(*List).IsSorted/post(sorted): IsSorted must be true exactly
// when no element is lt its predecessor. The defective loop started at the
// first element (comparing it with the root sentinel's zero value) and stopped
// one short of the last pair.
func TestVerifIsSortedBoundaries(t *testing.T) {
	lt := func(a, b int) bool { return a < b }
	mk := func(vs ...int) *List[int] {
		l := &List[int]{}
		for _, v := range vs {
			l.PushBack(v)
		}
		return l
	}
	if !mk(-5, -3).IsSorted(lt) {
		t.Error("[-5 -3] is sorted but IsSorted reports false (first element compared with the sentinel's zero value)")
	}
	if mk(1, 2, 0).IsSorted(lt) {
		t.Error("[1 2 0] is not sorted but IsSorted reports true (last pair skipped)")
	}
	if mk(3, 1).IsSorted(lt) {
		t.Error("[3 1] is not sorted but IsSorted reports true")
	}
	if !mk().IsSorted(lt) || !mk(-1).IsSorted(lt) || !mk(1, 1, 2).IsSorted(lt) {
		t.Error("short or sorted lists must be reported sorted")
	}
}
