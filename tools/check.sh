#!/bin/bash
# usage: tools/check.sh <PROPERTY> [quick|thorough]
# Rebuilds nothing but the verifier binary if missing; govc reloads /repo's
# working tree (with -tags verif) on every run.
#
# thorough = the same obligations with the long solver timeout, followed by the
# must-fail self-test: every seeded change of this property that the check is
# recorded to detect (seeded/<name>/meta.json: detected_by_check == yes) is
# applied to a scratch copy of /repo's working tree, the check is run on the
# copy and has to report a violation. A seeded change that no longer applies is
# skipped (reported); a recorded detection that is lost marks the check BROKEN
# (exit 2), not the repository. Scratch copies live under $TMPDIR and are
# removed as soon as used. At most SELFTEST_MAX (default 3) seeded changes per
# property are re-checked, to bound the running time; tools/reseed.py runs all.
set -u
cd /verif
export GOFLAGS=-mod=mod GOPROXY=off GOSUMDB=off GOTOOLCHAIN=local
export PATH=$PATH:/usr/local/go/bin
if [ ! -x bin/govc ] || [ -n "$(find govc -name '*.go' -newer bin/govc 2>/dev/null | head -1)" ]; then
  (cd govc && go build -o /verif/bin/govc .) || { echo "BROKEN: cannot build govc"; exit 2; }
fi
prop=$1; tier=${2:-quick}
if [ "$tier" != "thorough" ]; then
  exec bin/govc check "$prop" "$tier"
fi
bin/govc check "$prop" thorough
rc=$?
[ $rc -ne 0 ] && exit $rc
# must-fail self-test on scratch copies
broken=0; ran=0; max=${SELFTEST_MAX:-3}
for meta in seeded/*/meta.json; do
  dir=$(dirname "$meta")
  p=$(python3 -c "import json,sys;m=json.load(open('$meta'));print(m.get('property',''),m.get('detected_by_check',''))")
  [ "$p" = "$prop yes" ] || continue
  [ $ran -ge $max ] && break
  scratch=$(mktemp -d "${TMPDIR:-/tmp}/verif-selftest.XXXXXX")
  rsync -a --exclude .git /repo/ "$scratch/"
  if ! (cd "$scratch" && patch -p1 -s --dry-run < "/verif/$dir/patch.diff" >/dev/null 2>&1); then
    echo "SELFTEST: $(basename "$dir"): patch does not apply to the current tree any more (skipped)"
    rm -rf "$scratch"; continue
  fi
  (cd "$scratch" && patch -p1 -s < "/verif/$dir/patch.diff")
  VERIF_EVIDENCE_DIR="$scratch/.evidence" VERIF_OUT_DIR="$scratch/.outdir" bin/govc check -repo "$scratch" "$prop" quick > "$scratch/.out" 2>&1
  src=$?
  ran=$((ran+1))
  if [ $src -eq 1 ]; then
    echo "SELFTEST: $(basename "$dir"): detected ($(grep -c '^VIOLATION' "$scratch/.out") failing obligation(s))"
  else
    echo "SELFTEST: $(basename "$dir"): NOT detected any more (exit $src)"
    broken=1
  fi
  rm -rf "$scratch"
done
echo "SELFTEST: $ran seeded change(s) re-checked for $prop"
if [ $broken -ne 0 ]; then
  echo "BROKEN: the check no longer detects a seeded change it is recorded to detect"
  exit 2
fi
exit 0
