#!/bin/bash
# usage: tools/check.sh <PROPERTY> [quick|thorough]
# Rebuilds nothing but the verifier binary if missing; govc reloads /repo's
# working tree (with -tags verif) on every run.
set -u
cd /verif
export GOFLAGS=-mod=mod GOPROXY=off GOSUMDB=off GOTOOLCHAIN=local
export PATH=$PATH:/usr/local/go/bin
if [ ! -x bin/govc ] || [ -n "$(find govc -name '*.go' -newer bin/govc 2>/dev/null | head -1)" ]; then
  (cd govc && go build -o /verif/bin/govc .) || { echo "BROKEN: cannot build govc"; exit 2; }
fi
exec bin/govc check "$1" "${2:-quick}"
