#!/usr/bin/env python3
"""Rebuilds seeded/RESULTS.md from the meta.json files (after a partial tools/reseed.py run)."""
import json, glob, os
os.chdir('/verif')
rows = []
for d in sorted(glob.glob('seeded/*/')):
    m = json.load(open(d + 'meta.json'))
    note = m.get('detection_note', '')
    first = note.split('first: ', 1)[1] if 'first: ' in note else note
    rows.append((d.split('/')[1], m.get('property', ''), m.get('detected_by_check', ''), first[:160].replace('|', '/')))
with open('seeded/RESULTS.md', 'w') as f:
    f.write('# Seeded changes vs. current checks (tools/reseed.py; rebuilt from the meta.json files)\n\n| seed | property | detected | first failing obligation / note |\n|---|---|---|---|\n')
    for r in rows:
        f.write('| %s | %s | %s | %s |\n' % r)
print(sum(1 for r in rows if r[2] == 'yes'), 'of', len(rows), 'detected')
