#!/usr/bin/env python3
"""Re-runs every seeded change against the current checks and records the outcome
in its meta.json and in seeded/RESULTS.md. Each seed is applied to a scratch copy of
/repo (removed afterwards), so /repo itself is never touched; WORKERS seeds run in
parallel. usage: reseed.py [name-substring ...] (with a filter RESULTS.md is not rewritten)"""
import json, os, subprocess, glob, sys, tempfile, shutil
from concurrent.futures import ThreadPoolExecutor
os.chdir('/verif')
only = sys.argv[1:]
WORKERS = int(os.environ.get('RESEED_WORKERS', '3'))

def run(d):
    name = d.split('/')[1]
    meta = json.load(open(d + 'meta.json'))
    prop = meta['property']
    patch = os.path.abspath(d + 'patch.diff')
    scratch = tempfile.mkdtemp(prefix='verif-reseed.', dir=os.environ.get('TMPDIR', '/tmp'))
    try:
        subprocess.run(['rsync', '-a', '--exclude', '.git', '/repo/', scratch + '/'], check=True)
        if subprocess.run(['patch', '-p1', '-s', '-d', scratch, '-i', patch], capture_output=True).returncode != 0:
            return (name, prop, 'patch does not apply any more', '')
        r = subprocess.run([os.environ.get('GOVC','bin/govc'), 'check', '-repo', scratch, prop, 'quick'], capture_output=True, text=True,
                           env=dict(os.environ, VERIF_EVIDENCE_DIR=scratch + '/.evidence', VERIF_OUT_DIR=scratch + '/.out'))
    finally:
        shutil.rmtree(scratch, ignore_errors=True)
    out = [l for l in r.stdout.splitlines() if 'WARNING' not in l]
    viol = [l for l in out if l.startswith('  failed obligation:')]
    detected = 'yes' if r.returncode == 1 else 'no'
    first = viol[0].split('failed obligation: ')[1].split(' (')[0] if viol else ''
    notes = [l for l in out if l.startswith('NOTE')]
    meta['detected_by_check'] = detected
    meta['detection_note'] = (f'tools/check.sh {prop}: {len(viol)} failed obligation(s), first: {first}' if viol else 'check passes' + ('; ' + notes[0][:200] if notes else ''))
    json.dump(meta, open(d + 'meta.json', 'w'), indent=1)
    print(name, detected, first[:100], flush=True)
    return (name, prop, detected, first or (notes[0][:120] if notes else ''))

dirs = [d for d in sorted(glob.glob('seeded/*/')) if not only or any(o in d for o in only)]
with ThreadPoolExecutor(WORKERS) as ex:
    rows = list(ex.map(run, dirs))
if not only:
    with open('seeded/RESULTS.md', 'w') as f:
        f.write('# Seeded changes vs. current checks (tools/reseed.py)\n\n| seed | property | detected | first failing obligation / note |\n|---|---|---|---|\n')
        for r in rows:
            f.write('| %s | %s | %s | %s |\n' % r)
print(sum(1 for r in rows if r[2] == 'yes'), 'of', len(rows), 'detected')
