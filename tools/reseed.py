#!/usr/bin/env python3
"""Re-runs every seeded change against the current checks and records the outcome
in its meta.json and in seeded/RESULTS.md. /repo must be clean."""
import json, os, subprocess, glob, sys
os.chdir('/verif')
rows = []
only = sys.argv[1:]
for d in sorted(glob.glob('seeded/*/')):
    name = d.split('/')[1]
    if only and not any(o in name for o in only):
        continue
    meta = json.load(open(d + 'meta.json'))
    prop = meta['property']
    patch = os.path.abspath(d + 'patch.diff')
    if subprocess.run(['git', '-C', '/repo', 'status', '--porcelain', '--untracked-files=no'], capture_output=True, text=True).stdout.strip():
        print('repo not clean'); sys.exit(2)
    if subprocess.run(['git', '-C', '/repo', 'apply', '--check', patch]).returncode != 0:
        rows.append((name, prop, 'patch does not apply any more', '')); continue
    subprocess.run(['git', '-C', '/repo', 'apply', patch], check=True)
    try:
        r = subprocess.run(['bin/govc', 'check', prop, 'quick'], capture_output=True, text=True, env=dict(os.environ, VERIF_EVIDENCE_DIR='/verif/out/evidence-scratch'))
    finally:
        subprocess.run(['git', '-C', '/repo', 'checkout', '--', '.'], check=True)
    out = [l for l in r.stdout.splitlines() if 'WARNING' not in l]
    viol = [l for l in out if l.startswith('  failed obligation:')]
    detected = 'yes' if r.returncode == 1 else 'no'
    first = viol[0].split('failed obligation: ')[1].split(' (')[0] if viol else ''
    notes = [l for l in out if l.startswith('NOTE')]
    meta['detected_by_check'] = detected
    meta['detection_note'] = (f'tools/check.sh {prop}: {len(viol)} failed obligation(s), first: {first}' if viol else 'check passes' + ('; ' + notes[0][:200] if notes else ''))
    json.dump(meta, open(d + 'meta.json', 'w'), indent=1)
    rows.append((name, prop, detected, first or (notes[0][:120] if notes else '')))
    print(name, detected, first[:100])
with open('seeded/RESULTS.md', 'w') as f:
    f.write('# Seeded changes vs. current checks (tools/reseed.py)\n\n| seed | property | detected | first failing obligation / note |\n|---|---|---|---|\n')
    for r in rows:
        f.write('| %s | %s | %s | %s |\n' % r)
