#!/usr/bin/env python3
"""Regenerates /verif/MANIFEST.json from the table below."""
import json, subprocess

CLAIMED = {
 "C05": dict(
   text="Deductive proof, function by function, that every critical section of pubsub.Queue (Add, BlockingAdd, Remove, Wait, Len, Close and the helpers doAdd/popFront/unsafeWaitWhileEmpty, the three limit trackers, and the constructors NewQueue / NewUnlimitedQueue / QueueOptions.Validate / newQueueLimitTracker, which establish the invariant for every valid option set) preserves the queue's representation invariant and has exactly the effect of the sequential FIFO + limit/credit specification on a ghost sequence view; guarded state is havocked at every Lock / cond.Wait so the proof covers all interleavings; linearizability follows by the lock-atomicity argument of DESIGN 5.3.",
   ref="DESIGN.md 5.3, 7/C05",
   note="Trusted: sync.Mutex/sync.Cond/context models, go/ssa, SMT solvers, lock-atomicity => linearizability theorem (DESIGN 5.3); int as mathematical integer, float64 credit as Real.",
   technique="contract-based deductive verification: VCs generated from go/ssa of /repo by govc, discharged by z3/cvc5"),
 "C07": dict(
   text="Safety form of the no-lost-wake-up property for pubsub.Queue and pubsub.Deque (Queue: Wait/BlockingAdd/unsafeWaitWhileEmpty, doAdd, popFront, Close; Deque: WaitFront/WaitBack via waitPop and element.wait, WaitPushFront/WaitPushBack via waitPushAfter, addAfter, pop, Close): ghost counters of parked / notified waiters per condition variable and waiter kind are part of the lock invariant (W>0 and enabling condition => a notified waiter on that condition variable is pending), every cond.Wait carries a park-while-enabled obligation, every critical section must re-establish the invariant; proved for all numbers of waiters and all interleavings.",
   ref="DESIGN.md 5.4, 7/C07",
   note="Trusted: sync.Cond model (Signal wakes one parked waiter of an arbitrary kind, Broadcast all), the quiescence theorem of DESIGN 5.4, scheduler fairness for 'promptly'; the ctx-watcher goroutine is modelled as running when the function cancels its derived context.",
   technique="contract-based deductive verification with ghost wake-up accounting in the lock invariant"),
 "C13": dict(
   text="Deductive lock-set discipline: every read/write of a field declared guarded_by carries the obligation held(mutex) on every path of every function under contract, for all callers; owned sub-objects (trackers, entries) name their owner's mutex through a ghost field.",
   ref="DESIGN.md 5.1, 7/C13",
   note="Trusted: Go memory model (all accesses under one mutex => no race), sync primitives; objects allocated by a function are unshared until it returns.",
   technique="contract-based deductive verification: held(m) obligations at guarded field accesses"),
}

CLAIMED["C06"] = dict(
   text="Deductive proof, function by function, that every critical section of pubsub.Deque (PushFront/PushBack, PopFront/PopBack, ForcePushFront/ForcePushBack, WaitFront/WaitBack, WaitPushFront/WaitPushBack, Len, Close, the kernel addAfter/pop/waitPop/waitPushAfter/element.wait, makeDeque, the three limit trackers) preserves the circular doubly-linked representation invariant and has exactly the effect of the sequential capacity-bounded double-ended queue on a ghost sequence view: pops take the element currently at the requested end, a refused push has no effect, a Force push on a full deque evicts exactly one element from the opposite end and then succeeds, after Close pushes fail with ErrQueueClosed and pops report not-ok, Len <= capacity; blocking operations: every section before the last is a stutter and a context error leaves the view unchanged. Guarded state is havocked at every Lock / cond.Wait so the proof covers all interleavings; linearizability follows by the lock-atomicity argument of DESIGN 5.3. The constructors are under contract too: DequeOptions.Validate / QueueOptions.Validate accept exactly the consistent option sets and NewDeque establishes the deque invariant (tracker of one of the three kinds, capacity >= 1) for every valid configuration. Not under contract: NewUnlimitedDeque (risky.Force wrapper), Distributor closures.",
   ref="DESIGN.md 5.3, 7/C06",
   note="Trusted: sync.Mutex/sync.Cond/context models, go/ssa, SMT solvers, lock-atomicity => linearizability theorem (DESIGN 5.3); int as mathematical integer, float64 credit as Real; dq.mtx is set once at construction.",
   technique="contract-based deductive verification: VCs generated from go/ssa of /repo by govc (ghost sequence view + inverse index, quantified invariants), discharged by z3/cvc5")

CLAIMED["C14"] = dict(
   text="fun.WaitGroup: Add/Done/Inc/Num/IsDone/Wait proved against the counter specification under the lock invariant counter>=0 with wake-up accounting (no waiter parked un-notified while the counter is zero); Add panics exactly when the sum would be negative and leaves the counter unchanged; Wait returns only from a section that observed zero or when its context is done; Launch increments strictly before the go statement and the spawned body defers Done (PostHook runs its hook on normal and panicking exit).",
   ref="DESIGN.md 5.4, 7/C14",
   note="Trusted: sync.Mutex/Cond/context models, quiescence theorem 5.4; DoTimes (ft.DoTimes loop) is not under contract.",
   technique="contract-based deductive verification (lock invariant + ghost wake-up counters + ghost credit for spawn accounting)")

CLAIMED["C19"] = dict(
   text="hdrhist integer core proved in exact 64/32-bit bit-vector arithmetic for all shapes: bitLen is the bit length; New's bucket-count loop establishes the geometry invariant (highest trackable value < span of the last bucket, counts length); for every value in [min,max] the bucket index is in range, countsIndexFor is within len(counts) so RecordValue(s) always succeeds, increments exactly one bucket and the total; equivalent-value range: lowest <= v <= highest, width = 2^(unit+bucket) and width*subBucketHalfCount <= v above the first bucket (the precision bound); internal invariant panics unreachable. Not yet under contract: iterators, ValueAtQuantile/Min/Max, Export/Import/Merge/Equals.",
   ref="DESIGN.md 7/C19",
   note="Assumed (listed in evidence): the floating-point prologue of New (Pow10/Log2/Ceil/Floor/Pow) yields subBucketHalfCountMagnitude in {4,7,10,14,17}, subBucketCount = 2^(hcm+1), unitMagnitude = floor(log2 min); shapes restricted to 1 <= min < 2^44, max < 2^62.",
   technique="contract-based deductive verification in QF_BV (case split on the five sub-bucket magnitudes)")

CLAIMED["C03"] = dict(
   text="Worker-group error contract, the per-function part: WorkerGroupConf.CanContinueOnError is proved against the sentence of the property over the full domain of errors.Is facts and option flags (recorded exactly once iff reportable: panic, or none of skip/EOF/excluded and context errors only when included; continue per the table); ers.Is and IsExpiredContext against errors.Is; ers.ParsePanic: a non-nil panic value yields a non-nil result that carries ErrRecoveredPanic and the original error. Per-worker wiring: Worker.WithRecover (the wrapped function runs once; a panic never escapes), Processor.ReadAll (the loop goes on only while the outcome is nil or a skip - after the first other outcome the worker handles no further item; a non-nil result is the last error of producer or processor), and the three places where a worker decides that it may not continue (the error filter of Iterator.ProcessParallel, the filter of Map / Transform.ProcessParallel, the generator wrapper of Producer.GenerateParallel): exactly when CanContinueOnError says no they answer io.EOF AND cancel the group's context, otherwise they do not cancel. Not decided by contracts: the cross-goroutine counts themselves (items started after the first failure <= workers follows from the proved cancellation plus each worker re-reading through the cancelled context; exactly-once with ContinueOnError), Split / channel plumbing.",
   ref="DESIGN.md 7/C03",
   note="Trusted: errors.Is as an uninterpreted relation (reflexive on non-nil, false on nil); unknown callbacks (ErrorHandler) counted by ghost calls(f).",
   technique="contract-based deductive verification (loop-free full-domain proof of the classification table)")
CLAIMED["C12"] = dict(
   text="ers.Stack as a ghost sequence view (newest first) over its node chain: Push (nil ignored, plain error becomes the newest constituent, flattening operands lose nothing already present), Add, Len, Ok, Resolve (nil iff empty, the single error itself, else the stack), Unwrap, Is, Unwind (exactly the view), Join (nil iff nothing supplied, single plain error returned as itself, constituents carried), ParsePanic; erc.Collector Add/Len/Resolve/HasErrors/Ok under its mutex with the stack invariant as lock invariant (all interleavings). Not proved: errors.Is/As over the whole chain (follows from the proved Is/Unwrap contracts by the trusted chain-following semantics of errors.Is); order of constituents of nested stacks.",
   ref="DESIGN.md 7/C12",
   note="Trusted: errors.Is/As semantics; unknown Unwind()/Unwrap() []error implementations return arbitrary slices.",
   technique="contract-based deductive verification with ghost sequences and quantified chain invariants")
CLAIMED["C16"] = dict(
   text="dt.List kernel against a ghost sequence model with inverse index: uncheckedAppend/uncheckedRemove preserve the circular doubly-linked well-formedness (forward links, backward links, ownership, Len, view all agree) and perform insert/remove on the view; Append/Remove/Drop/Set/In, PushFront/PushBack, PopFront/PopBack/pop, Front/Back, Len, lazySetup proved including every rejected case (nil, not-ok, detached, already attached, root, other list) leaving all lists unchanged. every kernel operation is also proved to leave every OTHER well-formed list unchanged (frame over all lists); Extend moves all elements of the input, in order, to the end. Swap is a recorded known finding. Not yet under contract: Copy, iterators, JSON, dt.Stack.",
   ref="DESIGN.md 7/C16",
   note="Trusted: none beyond the engine; element handles are arbitrary references constrained only by the well-formedness of the list they claim to belong to.",
   technique="contract-based deductive verification with ghost sequences, ghost inverse index and quantified invariants")

CLAIMED["C17"] = dict(
   text="IsSorted and Heap against the ordering relation, with the comparison function as an uninterpreted pure total function (role dt/cmp.LessThan): List.IsSorted(lt) returns exactly 'no element is lt its predecessor' (true for lists shorter than two) - loop invariant over the element index, both directions of the equivalence proved, termination by a variant; Heap.lazySetup/Len/Push/Pop: the heap's list stays well-formed and sorted (no element LT its predecessor), Push inserts exactly one fresh element holding the pushed value at a position that keeps the list sorted and leaves every other element in place (view == insert(old view, k, new)), Pop removes and returns exactly the head, so successive pops are non-decreasing and return every pushed value exactly once; Push's scan terminates (variant). split (the first len - len/2 elements move, in order, to a new list; both lists stay well-formed) and List.Extend (all elements of the input move, in order, to the end; other lists untouched) are proved. Not under contract (not proved): SortMerge / mergeSort / merge (attempted; the loop invariants needed - sortedness of three lists, element ownership and the frame for all other lists at once - were at the edge of what the solvers decide within the timeout, so they are not claimed) and SortQuick (sort.SliceStable) - permutation, sortedness, stability and 'the list remains usable' for the two sort entry points are NOT decided by this check.",
   ref="DESIGN.md 7/C17",
   note="Assumed: asymmetry of LT between the pushed value and the values in the heap (a consequence of 'strict weak ordering' in the statement) as a precondition of Heap.Push; comparison functions are pure (declared role). Trusted: the List kernel contracts of C16 (proved there).",
   technique="contract-based deductive verification: loop invariants + variants over a ghost sequence view, comparison function as uninterpreted function")

CLAIMED["C20"] = dict(
   text="Non-destructive iterators, per call (step contracts) under arbitrary interference at every re-acquisition of the lock: Queue.Producer closure, waitForLink, waitForNew; Deque.confProducer closure (all four Producer* variants run it under the deque mutex) and element.wait. Proved: no nil dereference and no other panic on any path with the shared state havocked under the lock invariant at each Lock / cond.Wait return (entries and elements that were ever linked stay 'linked': links of linked nodes lead to linked nodes, never nil for the deque, never to the queue sentinel) - 'never panics'; a yielded value is the item of a linked, non-sentinel node - 'never yields a value that was not in the container'; the cursor moves to the node linked right after it (absent removals the link chain is container order: in order, nothing skipped, each once; reverse for the reverse variants), the non-blocking deque variants report io.EOF at the end without moving; the queue iterator parks only while its cursor has no successor and the queue is open, and every successful add notifies all parked iterators - 'does not remain blocked while an unseen item is present'; errors are ErrQueueClosed / context errors only when closed / done. Every Queue and Deque critical section is proved to preserve the linked-node invariants. Not decided: the WithLock wrapper around the deque producers (C15), Queue.Iterator / Deque.Iterator adapters (fun.Iterator, C02), 'finishes with io.EOF once closed' for the blocking deque variants (they return ErrQueueClosed).",
   ref="DESIGN.md 7/C20",
   note="Trusted: sync.Mutex/Cond/context models, ghost 'linked' marking via the guard ghost field set at linking time; int as mathematical integer.",
   technique="contract-based deductive verification with lock invariants over all ever-linked nodes and interference havoc at every lock acquisition")

CLAIMED["C15"] = dict(
   text="Function wrappers, one contract per wrapper closure with the wrapped function as an unknown function value (ghost calls(f) counts its executions; it may return anything and, where stated, panic): Once (Worker, Operation, Processor, Producer, Handler, ft.Once): the wrapped function is called only inside sync.Once.Do, exactly once there; a caller that finds the once done neither calls it nor writes the cached result, and returns the cached cell. Lock/WithLock (Worker, Operation, Processor, Producer, Handler): exactly one call per invocation, made while the mutex is held, mutex released on normal and panicking exit (executions never overlap). Limit (limitExec, shared by Worker/Processor/Producer/Future.Limit): counter monotone, never above n, written only under the mutex; a call executes op iff the counter it observes at its decision point is below n and then bumps it by one (so min(n, calls) executions), op runs under the mutex, the cached result is written only while the counter is below n (final once the fast path is open); Operation.Limit: the CAS loop grants exactly the transitions k<n -> k+1. Retry (Worker, Producer): at most n attempts, a non-nil result implies an attempt was made. PreHook/PostHook (Worker): hook and worker each run exactly once, in the documented order; Operation.PostHook: hook runs exactly once on normal and panicking exit. Waiters: WaitChannel returns only after a receive on the channel became possible or its context is done; Operation.Launch returns exactly such a waiter on the signal channel created by the call; Operation.Signal's goroutine closes the signal channel only after the operation has been called, also when it panics. Not under contract: Join/merge (generic ft.Wrapper instantiation outside the engine's subset), adt.Once / Mnemonize / ft.OnceDo (adt.Atomic model missing), Worker.Signal/Launch/WorkerFuture/StartGroup/Background (channel send pipelines), TTL, Future wrappers.",
   ref="DESIGN.md 7/C15",
   note="Trusted: sync.Once (one execution over all goroutines; every Do returns after it completed), sync.Mutex exclusion, sync/atomic sequential consistency with the declared rely (guaranteed in turn by the function's own writes), blocking select semantics. 'Exactly once over all goroutines' and 'never two executions at once' follow from these trusted primitives plus the proved per-call obligations.",
   technique="contract-based deductive verification of each wrapper closure with ghost call counters, a sync.Once model, atomics with rely/guarantee, call-order and under-lock obligations")

CLAIMED["C02"] = dict(
   text="Step contracts of the sequential operators against the ghost stream of their input producer (an unknown function value; callret(p, k) is the value/error of its k-th call and calls(p) the cursor - this assumes nothing about the producer): Iterator.ReadOne (a closed iterator yields io.EOF without consuming; otherwise it consumes up to the first element that is not a skip, the skipped ones are exactly those with ErrIteratorSkip, a value is returned unchanged, after an error from the stream the iterator is closed so nothing further is yielded, non-terminating errors go to the error handler and are reported as io.EOF), Iterator.Next (same, caching the value; false leaves it unchanged), SliceIterator (k-th call yields s[k], io.EOF from len(s) on, index in bounds), Producer.Filter and Iterator.Filter (the first element satisfying the predicate, every earlier check false, failing elements become skips), Producer.Join (the concatenation state machine: first producer only in stage 0, second only after the first's io.EOF, failures sticky, io.EOF forever after the second ends, skips consumed, values unchanged), Transform.Producer (map with skip: transform applied exactly to the elements that arrived without error, skips from either side dropped, first other error ends the call), Converter / ConverterOk / ConverterErr. The lift from steps to whole sequences (filter, map, concat, identity) is the induction of DESIGN 5.6 (not mechanised). Not under contract: Reduce, Count, Observe, Process, Slice, MarshalJSON/UnmarshalJSON, itertool (Uniq, Indexed, DropZeroValues, Reduce, Contains), the dt producers, and every channel-backed operator (Buffer, Split, Channel, Chain, Merge*).",
   ref="DESIGN.md 5.6, 7/C02",
   note="Assumed (listed in evidence): sequential use of the iterator (no other goroutine changes its closed flag / once during a call); the two producers joined are distinct function values. Trusted: errors.Is, sync.Once, atomics.",
   technique="contract-based deductive verification of operator closures against a ghost call-history stream model, loop invariants quantified over the consumed prefix")

CLAIMED["C18"] = dict(
   text="dt.Set kernel against the mathematical-set model, with the coupling invariant between the hash index (Go map value -> order element) and the optional order list as representation invariant (ordered: list well-formed, same size as the index, every list element is indexed under its own value and every indexed value points to its member element; unordered: every indexed value maps to nil): Len and Check return the model's size / membership; AddCheck returns exactly 'was already a member', makes the value a member, changes no other membership, grows the size by one iff new, appends a new member at the END of the order and does not move a present one; DeleteCheck returns exactly 'was a member', removes it, changes no other membership, shrinks the size by one iff present, and removes exactly that element from the order (every other element keeps its relative position); the ordered iteration step (List.Producer closure) yields the members in list order, each once, then io.EOF. Proved for all map contents and list shapes (maps modelled as domain / value / cardinality; lazily initialised sets included). Not under contract: Populate/Extend (iterator pipelines), Sort* (C17: merge sort not proved), Equal, JSON, the unordered iterator (goroutine + channel), and the synchronized variant - the optional mutex is read through an atomic.Value and a generic type switch, so lock()/with() are ASSUMED (trusted contracts, listed in evidence) and linearizability of the synchronized set is not decided.",
   ref="DESIGN.md 7/C18",
   note="Assumed: (*Set).lock returns the set's mutex (or nil) holding it and initialises the hash index; (*Set).with releases it (both trusted, bodies not verified). Go maps as (domain, value, cardinality) arrays; element values of type parameter T as an uninterpreted sort.",
   technique="contract-based deductive verification: coupling invariant between a map model and the ghost sequence view of the order list")

CLAIMED["C10"] = dict(
   text="srv.Service lifecycle as an Owicki-Gries proof over its atomics with auxiliary variables, plus one contract per service goroutine. Protocol invariant J over isRunning / isFinished and the ghost variables finishing (service goroutine between isFinished.Store(true) and isRunning.Store(false)) and late (Start calls that flipped isRunning after the service finished and have not undone it): 'a finished service with no late starter in flight is not running' - i.e. at quiescence after Wait returns Running() is false. Every atomic step of Start, Running and of the service goroutine is proved to preserve J with the state havocked under J and the rely (isFinished is monotone) before each step; Start restores its own late flip before returning (a Start that finds the service finished does not leave it marked running and reports ErrServiceReturned) and returns only nil / ErrServiceAlreadyStarted / ErrServiceReturned. Service goroutine: Run is invoked exactly once; the service context is cancelled after Run returned; Cleanup, if set, runs exactly once, after Run returned, after the shutdown goroutine signalled completion and after the handler signal was closed; isFinished is stored before isRunning is cleared; main signal closed last; panics of Run / Cleanup are recovered into the collector and never escape. Shutdown goroutine: Shutdown runs exactly once and only after the service context ended; the shutdown signal is closed afterwards also when it panics. Error-handler goroutine: the handler runs at most once, only after both signals were received. Not decided: 'exactly one Start returns nil' as a statement over all callers (needs an ownership token for the window between the Swap and Once.Do - the per-call facts proved are that a nil return passed the Swap false->true with isFinished false afterwards), that Wait's result aggregates every error (Collector contracts of C12 give the per-call facts), Close, Worker/Group wrappers.",
   ref="DESIGN.md 5.5, 7/C10",
   note="Trusted: sync/atomic sequential consistency, sync.Once, channel close/receive semantics, the Owicki-Gries theorem (an invariant preserved by every atomic step of every goroutine holds in every reachable state), that every write to the Service atomics is in a function under contract (Start, its closures); WaitGroup credit: the counter is the sum of the goroutines' credits. Schedule replays of the two Start defects use the build-tag-guarded yield hooks in srv (no-ops without -tags verif).",
   technique="contract-based deductive verification: Owicki-Gries invariant with auxiliary variables over sync/atomic steps, per-goroutine contracts with call-order obligations")

NOT_APPLICABLE = {
 "C01": "exactly-once delivery across an unbounded set of goroutines and channels is a whole-execution property; no per-function contract within reach of the generator states it (DESIGN 7/C01)",
 "C04": "liveness (every goroutine eventually exits, a blocked consumer returns promptly): contracts give partial correctness only (DESIGN 7/C04)",
 "C08": "needs a global invariant over the broker event loop, N dispatch workers, sync.Map iterator goroutines and channel contents (DESIGN 7/C08)",
 "C09": "liveness / progress of the broker; the safety root causes are decided under C07 (DESIGN 7/C09)",
 "C11": "histories of Add racing an orchestrator run loop that spawns a goroutine per service; composition outside reach (DESIGN 7/C11)",
}

PENDING = {}

def main():
    props = [json.loads(l) for l in open('/verif/properties.jsonl')]
    checks = []
    na = []
    for p in props:
        pid = p['id']
        if pid in CLAIMED:
            c = CLAIMED[pid]
            checks.append({
                "property_id": pid,
                "quick_cmd": f"tools/check.sh {pid} quick",
                "thorough_cmd": f"tools/check.sh {pid} thorough",
                "evidence_file": f"/verif/evidence/{pid}.json",
                "replay_cmd_template": "bin/govc replay {path}",
                "engine": "govc",
                "level_claimed": {"category": "proof", "text": c['text'], "design_ref": c['ref']},
                "level_note": c['note'],
                "technique": c['technique'],
            })
        elif pid in NOT_APPLICABLE:
            na.append({"property_id": pid, "reason": NOT_APPLICABLE[pid]})
        else:
            na.append({"property_id": pid, "reason": PENDING.get(pid, "contracts for this property are not written yet / the engine layer it needs is not built (DESIGN 9); not covered by any other technique")})
    hooks = subprocess.run(['git','-C','/repo','log','--format=%H %s'],capture_output=True,text=True).stdout.splitlines()
    hook_commits = [l.split()[0] for l in hooks if ' verif:' in ' '+l]
    m = {
        "version": 1,
        "setup_cmd": "cd /verif/govc && GOFLAGS=-mod=mod GOPROXY=off GOSUMDB=off GOTOOLCHAIN=local go build -o /verif/bin/govc .",
        "hooks": {
            "guard": "verif",
            "enable": "-tags verif: govc loads /repo with this tag. Guarded files: the comment-only zz_contracts_verif.go contract files (one per package under contract), and srv/zz_hooks_verif.go / srv/zz_hooks_noverif.go - the yield-point dispatcher used only by the schedule replays of the Service.Start findings (the two verifYield(...) call lines in srv/service.go call an empty function without the tag)",
            "baseline_off_cmd": "cd /repo && go test -mod=mod -vet=off -count=1 -timeout 25m ./...",
            "source_commits": hook_commits,
            "add_only": True,
        },
        "engines": [{"name": "govc", "path": "/verif/govc", "serves_properties": sorted(CLAIMED), "kind_free_text": "verification-condition generator over go/ssa with Gobra-style contracts in build-tagged comment files; SMT back ends z3 5.1, z3 4.8.12, cvc5 1.0"}],
        "checks": checks,
        "not_applicable": na,
        "notes": "Contracts live in /repo/<pkg>/zz_contracts_verif.go (//go:build verif, comments only). Genuine defects found are recorded in /verif/known_findings.json (fixed: entries name the fix: commit).",
    }
    json.dump(m, open('/verif/MANIFEST.json','w'), indent=1)
    print("claimed:", sorted(CLAIMED), "na:", [x['property_id'] for x in na])

main()
