#!/bin/bash
# usage: tools/replay.sh <pkgdir relative to repo> <test file in /verif/replay/...> <TestRegex> [repo]
# Runs an in-package test against the real code by overlay (nothing is written to the repo).
set -u
pkg=$1; file=$2; re=$3; repo=${4:-/repo}; extra=${5:-}
export GOFLAGS=-mod=mod GOPROXY=off GOSUMDB=off GOTOOLCHAIN=local
tmp=$(mktemp -d /tmp/verif-replay.XXXXXX)
trap 'rm -rf "$tmp"' EXIT
target="$repo/$pkg/zz_verif_replay_test.go"
[ "$pkg" = "." ] && target="$repo/zz_verif_replay_test.go"
printf '{"Replace":{"%s":"%s"}}' "$target" "$(realpath "$file")" > "$tmp/ov.json"
cd "$repo" && go test $extra -overlay "$tmp/ov.json" -vet=off -count=1 -timeout 120s -run "$re" "./$pkg/" 2>&1 | grep -v WARNING
exit ${PIPESTATUS[0]}
