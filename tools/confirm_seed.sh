#!/bin/bash
# usage: tools/confirm_seed.sh <worktree> <seed dir (patch.diff + *_test.go)> <pkg dir> [extra go test flags]
# Confirms in a scratch worktree: with the patch the demo fails and the package's
# existing tests pass; without it the demo passes.
wt=$1; sd=$2; pkg=$3; shift 3
export GOFLAGS=-mod=mod GOPROXY=off GOSUMDB=off GOTOOLCHAIN=local
cd "$wt" || exit 2
git checkout -q -- . ; git clean -fdq
demo=$(ls "$sd"/*_test.go | head -1)
cp "$demo" "$pkg/zz_seed_demo_test.go"
names=$(grep -o 'func Test[A-Za-z0-9_]*' "$demo" | sed 's/func //' | paste -sd'|')
echo "-- without patch: demo"
go test -vet=off -count=1 -timeout 120s "$@" -run "^($names)\$" "./$pkg/" 2>&1 | grep -v WARNING | tail -2
git apply "$sd/patch.diff" || { echo "patch failed"; exit 2; }
echo "-- with patch: build"
go build ./... 2>&1 | grep -v WARNING | tail -2
echo "-- with patch: demo"
go test -vet=off -count=1 -timeout 120s "$@" -run "^($names)\$" "./$pkg/" 2>&1 | grep -v WARNING | tail -3
rm "$pkg/zz_seed_demo_test.go"
echo "-- with patch: existing tests"
go test -vet=off -count=1 -timeout 15m "./$pkg/" 2>&1 | grep -v WARNING | tail -2
git checkout -q -- . ; git clean -fdq
