#!/usr/bin/env python3
"""usage: keep_seed.py <srcdir> <name> <property> <detected: yes|no> <note...>
Copies a confirmed seeded change into /verif/seeded/<name>/ and extends meta.json."""
import sys, os, json, shutil, glob
src, name, prop, detected = sys.argv[1:5]
note = ' '.join(sys.argv[5:])
dst = f'/verif/seeded/{name}'
os.makedirs(dst, exist_ok=True)
shutil.copy(f'{src}/patch.diff', dst)
for f in glob.glob(f'{src}/*_test.go'):
    shutil.copy(f, dst + '/' + os.path.basename(f).replace('_test.go', '_test.go.txt'))
meta = {}
try:
    meta = json.load(open(f'{src}/meta.json'))
except Exception as e:
    meta = {'meta_parse_error': str(e)}
meta['property'] = prop
meta['confirmed'] = 'tools/confirm_seed.sh in a scratch worktree: demo passes without the patch, fails with it; package builds and its existing tests pass with the patch'
meta['detected_by_check'] = detected
meta['detection_note'] = note
json.dump(meta, open(f'{dst}/meta.json', 'w'), indent=1)
print('kept', dst)
