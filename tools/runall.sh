#!/bin/bash
# runs every claimed check (quick by default) on /repo as it is and validates the evidence
cd /verif
tier=${1:-quick}
rc=0
for p in $(python3 -c "import json;print(' '.join(c['property_id'] for c in json.load(open('MANIFEST.json'))['checks']))"); do
  tools/check.sh $p $tier | grep "VIOLATION\|KNOWN\|BROKEN\|NOTE\|$p $tier" | cut -c1-200
  [ ${PIPESTATUS[0]} -ne 0 ] && rc=1
done
python3-vt tools/validate.py | tail -20
exit $rc
