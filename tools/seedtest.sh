#!/bin/bash
# usage: tools/seedtest.sh <patch.diff> <PROP> [PROP...]  — applies the patch to /repo, runs the checks, reverts.
patch=$1; shift
cd /repo || exit 2
if ! git apply --check "$patch" 2>/dev/null; then echo "PATCH DOES NOT APPLY: $patch"; exit 2; fi
git apply "$patch"
for p in "$@"; do
  (cd /verif && VERIF_EVIDENCE_DIR=/verif/out/evidence-scratch bin/govc check $p quick 2>&1 | grep -v WARNING | grep "VIOLATION\|failed obl\|NOTE\|BROKEN\|$p quick" | cut -c1-230)
done
git checkout -- . 
git status --short | grep -v '^??' 
