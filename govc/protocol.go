package main

import (
	"go/token"
	"go/types"
	"strings"
)

// Lock-free protocols over the sync/atomic fields of one struct (DESIGN 5.5,
// Owicki-Gries with auxiliary variables). Declarations in a contract file:
//
//	protocol Service(s) = <J: invariant over atomicbool(s.f), ghost fields>
//	protorely Service(s) = <two-state fact other goroutines maintain, over old()>
//	protoshared Service(s) = s.finishing, s.late       shared ghost fields
//	atomicghost Service.isRunning Swap <cond over aold, anew, s> :: s.late = s.late + 1; s.mylate = s.mylate + 1
//
// Every atomic operation on a field of such a struct is an atomic step of the
// protocol: before it, the atomic fields of the instance and its shared ghost
// fields are havocked (other goroutines ran) subject to J and the rely; the
// operation is applied; the ghost updates of the matching atomicghost rules
// are applied; then J must hold again (obligation protocol-inv). Ghost fields
// not listed as shared are local to the executing goroutine. Trusted: an
// invariant preserved by every atomic step of every goroutine holds in every
// reachable state; every write to these atomics goes through the functions
// under contract.
type protoDecl struct {
	pkg, strct, recv string
	inv, rely        Expr
	shared           []Expr
	rules            []*protoRule
}

type protoRule struct {
	field, op string
	cond      Expr
	updates   []string // "lhs = rhs"
	text      string
}

func (P *Program) protocols() map[string]*protoDecl {
	if P.protos != nil {
		return P.protos
	}
	P.protos = map[string]*protoDecl{}
	get := func(short, head string) (*protoDecl, bool) {
		op := strings.Index(head, "(")
		cp := strings.Index(head, ")")
		if op < 0 || cp < op {
			return nil, false
		}
		st := strings.TrimSpace(head[:op])
		key := short + "." + st
		pd := P.protos[key]
		if pd == nil {
			pd = &protoDecl{pkg: short, strct: st, recv: strings.TrimSpace(head[op+1 : cp])}
			P.protos[key] = pd
		}
		return pd, true
	}
	for short, cf := range P.Contracts {
		for _, raw := range cf.Raw["protocol"] {
			if eq := strings.Index(raw, " = "); eq > 0 {
				if pd, ok := get(short, raw[:eq]); ok {
					if e, err := ParseExpr(strings.TrimSpace(raw[eq+3:])); err == nil {
						pd.inv = e
					}
				}
			}
		}
		for _, raw := range cf.Raw["protorely"] {
			if eq := strings.Index(raw, " = "); eq > 0 {
				if pd, ok := get(short, raw[:eq]); ok {
					if e, err := ParseExpr(strings.TrimSpace(raw[eq+3:])); err == nil {
						pd.rely = e
					}
				}
			}
		}
		for _, raw := range cf.Raw["protoshared"] {
			if eq := strings.Index(raw, " = "); eq > 0 {
				if pd, ok := get(short, raw[:eq]); ok {
					for _, m := range splitTopLevel(raw[eq+3:], ',') {
						if e, err := ParseExpr(strings.TrimSpace(m)); err == nil {
							pd.shared = append(pd.shared, e)
						}
					}
				}
			}
		}
		for _, raw := range cf.Raw["atomicghost"] {
			// Service.isRunning Swap <cond> :: upd; upd
			sep := strings.Index(raw, "::")
			if sep < 0 {
				continue
			}
			fs := strings.Fields(raw[:sep])
			if len(fs) < 3 {
				continue
			}
			sp := strings.SplitN(fs[0], ".", 2)
			if len(sp) != 2 {
				continue
			}
			pd := P.protos[short+"."+sp[0]]
			if pd == nil {
				pd = &protoDecl{pkg: short, strct: sp[0], recv: "s"}
				P.protos[short+"."+sp[0]] = pd
			}
			cond, err := ParseExpr(strings.Join(fs[2:], " "))
			if err != nil {
				continue
			}
			r := &protoRule{field: sp[1], op: fs[1], cond: cond, text: raw}
			for _, u := range strings.Split(raw[sep+2:], ";") {
				if u = strings.TrimSpace(u); u != "" {
					r.updates = append(r.updates, u)
				}
			}
			pd.rules = append(pd.rules, r)
		}
	}
	return P.protos
}

func (x *Exec) protoFor(o *origin) *protoDecl {
	if o == nil {
		return nil
	}
	return x.P.protocols()[typeName(o.STyp)]
}

func (x *Exec) protoEnv(cfg *Config, pd *protoDecl, o *origin) *SpecEnv {
	env := &SpecEnv{x: x, cfg: cfg, st: cfg.st, old: cfg.old, vars: map[string]SpecVal{}, pkg: x.pkgOf(pd.pkg), cf: x.P.Contracts[pd.pkg]}
	env.vars[pd.recv] = SpecVal{T: o.Base, Ty: types.NewPointer(o.STyp)}
	return env
}

func isAtomicType(t types.Type) (isAtomic, isBool bool) {
	nt, ok := t.(*types.Named)
	if !ok || nt.Obj().Pkg() == nil || nt.Obj().Pkg().Path() != "sync/atomic" {
		return false, false
	}
	switch nt.Obj().Name() {
	case "Bool":
		return true, true
	case "Int64", "Int32", "Uint64", "Uint32":
		return true, false
	}
	return false, false
}

// protoInterfere: other goroutines ran: the instance's atomic fields and
// shared ghost fields are arbitrary, subject to the invariant and the rely.
func (x *Exec) protoInterfere(cfg *Config, pd *protoDecl, o *origin) {
	st := cfg.st
	before := st.clone()
	s := o.STyp.Underlying().(*types.Struct)
	for i := 0; i < s.NumFields(); i++ {
		at, isBool := isAtomicType(s.Field(i).Type())
		if !at {
			continue
		}
		obj := x.subRef(o.STyp, i, o.Base)
		name, arr := x.atomicArr(st, isBool)
		st.heap[name] = Store(arr, obj, x.d.Fresh("proto!"+s.Field(i).Name(), arr.Sort.ElemSort()))
	}
	env := x.protoEnv(cfg, pd, o)
	c := &FuncContract{Pkg: pd.pkg, Key: "\x00proto"}
	for _, h := range pd.shared {
		c.Modifies = append(c.Modifies, &Clause{Kind: "modifies", E: h})
	}
	if len(c.Modifies) > 0 {
		x.havocModifies(cfg, env, c)
	}
	x.interfere(cfg)
	env = x.protoEnv(cfg, pd, o)
	if pd.inv != nil {
		st.assume(x.specBool(env, pd.inv))
	}
	if pd.rely != nil {
		env.old = before
		st.assume(x.specBool(env, pd.rely))
	}
	x.protoBefore = cfg.st.clone()
}

// protoStep: after the atomic operation: ghost updates of the matching rules,
// then the invariant must hold.
func (x *Exec) protoStep(cfg *Config, pd *protoDecl, o *origin, op string, aold, anew Term, pos token.Pos) {
	fname, _ := fieldNameOf(o.STyp, o.Field)
	// guarantee = rely: what this step did is something the other goroutines
	// may rely on (state before the operation: x.protoBefore)
	defer func() {
		if pd.rely != nil && x.protoBefore != nil {
			env := x.protoEnv(cfg, pd, o)
			env.old = x.protoBefore
			x.obligeInv(cfg, env, pd.rely, "protocol-guarantee", pd.strct+" step "+fname+"."+op+": ", nil, pos, 0)
		}
	}()
	for _, r := range pd.rules {
		if r.field != fname || r.op != op {
			continue
		}
		env := x.protoEnv(cfg, pd, o)
		env = env.bind("aold", SpecVal{T: aold}).bind("anew", SpecVal{T: anew})
		cond := x.specBool(env, r.cond)
		// conditional ghost update: new = cond ? rhs : old
		for _, u := range r.updates {
			eq := strings.Index(u, " = ")
			if eq < 0 {
				unsupported("atomicghost update %q", u)
			}
			lhs, rhs := strings.TrimSpace(u[:eq]), strings.TrimSpace(u[eq+3:])
			cl, err := parseClause("ghostset", nil, lhs+" == (("+r.cond.exprString()+") ? ("+rhs+") : ("+lhs+"))", 0)
			if err != nil {
				unsupported("atomicghost update %q: %v", u, err)
			}
			_ = cond
			x.applyGhostSetIn(cfg, env, cl, cfg.st)
		}
	}
	if pd.inv != nil {
		env := x.protoEnv(cfg, pd, o)
		x.obligeInv(cfg, env, pd.inv, "protocol-inv", pd.strct+" after "+fname+"."+op+": ", nil, pos, 0)
	}
	x.usedTrusted["lock-free protocol of "+pd.strct+": an invariant preserved by every atomic step holds in every reachable state (Owicki-Gries); all writes to its atomics go through functions under contract"] = true
}
