package main

import (
	"fmt"
	"go/types"
	"os"
	"path/filepath"
	"strings"

	"golang.org/x/tools/go/packages"
	"golang.org/x/tools/go/ssa"
	"golang.org/x/tools/go/ssa/ssautil"
)

const modulePath = "github.com/tychoish/fun"

type Program struct {
	Prog      *ssa.Program
	Pkgs      map[string]*ssa.Package // by import path
	TPkgs     map[string]*packages.Package
	Funcs     map[string]*ssa.Function // key: "<pkgshort>.<relstring>" e.g. "pubsub.(*Queue).popFront"
	Contracts map[string]*ContractFile // by pkg short name (path relative to module, "" -> "fun")
	RepoDir   string
	locks     map[string]*lockDecl
	condLocks map[string]string
	guards    map[string]string
	wkinds    map[string][]*waitKind
	protos    map[string]*protoDecl
}

func pkgShort(path string) string {
	if path == modulePath {
		return "fun"
	}
	return strings.TrimPrefix(path, modulePath+"/")
}

// funcKey names a function the way contract files do: receivers without type
// parameters, closures with $N suffixes.
func funcKey(fn *ssa.Function) string {
	if fn == nil {
		return "<nil>"
	}
	if fn.Origin() != nil {
		fn = fn.Origin()
	}
	if p := fn.Parent(); p != nil {
		// closure: name is parent$N
		name := fn.Name()
		idx := strings.LastIndex(name, "$")
		suffix := ""
		if idx >= 0 {
			suffix = name[idx:]
		}
		return funcKey(p) + suffix
	}
	name := fn.Name()
	if recv := fn.Signature.Recv(); recv != nil {
		t := recv.Type()
		ptr := ""
		if pt, ok := t.(*types.Pointer); ok {
			ptr = "*"
			t = pt.Elem()
		}
		tn := "?"
		if nt, ok := t.(*types.Named); ok {
			tn = nt.Obj().Name()
		}
		if ptr != "" {
			return "(*" + tn + ")." + name
		}
		return "(" + tn + ")." + name
	}
	return name
}

func funcPkgShort(fn *ssa.Function) string {
	if fn.Origin() != nil {
		fn = fn.Origin()
	}
	for fn.Parent() != nil {
		fn = fn.Parent()
	}
	if fn.Pkg != nil {
		return pkgShort(fn.Pkg.Pkg.Path())
	}
	if recv := fn.Signature.Recv(); recv != nil {
		t := recv.Type()
		if pt, ok := t.(*types.Pointer); ok {
			t = pt.Elem()
		}
		if nt, ok := t.(*types.Named); ok && nt.Obj().Pkg() != nil {
			return pkgShort(nt.Obj().Pkg().Path())
		}
	}
	if fn.Object() != nil && fn.Object().Pkg() != nil {
		return pkgShort(fn.Object().Pkg().Path())
	}
	return "?"
}

func fullKey(fn *ssa.Function) string { return funcPkgShort(fn) + "." + funcKey(fn) }

func LoadProgram(repo string, patterns []string) (*Program, error) {
	cfg := &packages.Config{
		Mode:       packages.LoadAllSyntax,
		Dir:        repo,
		BuildFlags: []string{"-tags=verif"},
		Env:        append(os.Environ(), "GOFLAGS=-mod=mod", "GOPROXY=off", "GOSUMDB=off", "GOTOOLCHAIN=local"),
	}
	pkgs, err := packages.Load(cfg, patterns...)
	if err != nil {
		return nil, err
	}
	var errs []string
	packages.Visit(pkgs, nil, func(p *packages.Package) {
		if !strings.HasPrefix(p.PkgPath, modulePath) {
			return
		}
		for _, e := range p.Errors {
			errs = append(errs, e.Error())
		}
	})
	if len(errs) > 0 {
		return nil, fmt.Errorf("package errors: %s", strings.Join(errs, "; "))
	}
	prog, spkgs := ssautil.AllPackages(pkgs, ssa.GlobalDebug)
	prog.Build()
	P := &Program{Prog: prog, Pkgs: map[string]*ssa.Package{}, TPkgs: map[string]*packages.Package{}, Funcs: map[string]*ssa.Function{}, Contracts: map[string]*ContractFile{}, RepoDir: repo}
	for i, sp := range spkgs {
		if sp == nil {
			continue
		}
		P.Pkgs[sp.Pkg.Path()] = sp
		_ = i
	}
	packages.Visit(pkgs, nil, func(p *packages.Package) { P.TPkgs[p.PkgPath] = p })
	for fn := range ssautil.AllFunctions(prog) {
		if fn.Origin() != nil {
			continue // instantiation; we verify generic bodies
		}
		if fn.Synthetic != "" && fn.Parent() == nil && !strings.HasPrefix(fn.Synthetic, "package init") {
			// wrappers, bound methods, thunks
			continue
		}
		ps := funcPkgShort(fn)
		if ps == "?" {
			continue
		}
		if fn.Pkg == nil && fn.Parent() == nil {
			continue
		}
		root := fn
		for root.Parent() != nil {
			root = root.Parent()
		}
		if root.Pkg == nil || !strings.HasPrefix(root.Pkg.Pkg.Path(), modulePath) {
			continue
		}
		P.Funcs[fullKey(fn)] = fn
	}
	// methods of (generic) named types that nothing references are not in
	// AllFunctions: materialise them explicitly
	for path, sp := range P.Pkgs {
		if !strings.HasPrefix(path, modulePath) {
			continue
		}
		scope := sp.Pkg.Scope()
		for _, name := range scope.Names() {
			tn, ok := scope.Lookup(name).(*types.TypeName)
			if !ok {
				continue
			}
			named, ok := tn.Type().(*types.Named)
			if !ok {
				continue
			}
			for i := 0; i < named.NumMethods(); i++ {
				fn := prog.FuncValue(named.Method(i))
				if fn == nil || len(fn.Blocks) == 0 {
					continue
				}
				key := fullKey(fn)
				if _, seen := P.Funcs[key]; !seen {
					P.Funcs[key] = fn
				}
				for _, anon := range fn.AnonFuncs {
					if _, seen := P.Funcs[fullKey(anon)]; !seen {
						P.Funcs[fullKey(anon)] = anon
					}
				}
			}
		}
	}
	// contract files
	for path, sp := range P.Pkgs {
		if !strings.HasPrefix(path, modulePath) {
			continue
		}
		short := pkgShort(path)
		dir := repo
		if short != "fun" {
			dir = filepath.Join(repo, short)
		}
		file := filepath.Join(dir, "zz_contracts_verif.go")
		if _, err := os.Stat(file); err != nil {
			continue
		}
		cf, err := ParseContractFile(file, short)
		if err != nil {
			return nil, err
		}
		P.Contracts[short] = cf
		_ = sp
	}
	return P, nil
}

func (P *Program) ContractFor(fn *ssa.Function) *FuncContract {
	if fn == nil {
		return nil
	}
	cf := P.Contracts[funcPkgShort(fn)]
	if cf == nil {
		return nil
	}
	return cf.Funcs[funcKey(fn)]
}
