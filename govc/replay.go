package main

import (
	"fmt"
	"os"
	"path/filepath"
	"strings"
)

// writeReplay records a failed obligation. If a replay generator exists for
// the obligation's function and the solver produced a model, the model is
// turned into a Go test that is run against the real code; found reports
// whether that test reproduced the failure.
func writeReplay(P *Program, dir, prop string, o *Obligation, smtFile string) (string, bool) {
	base := sanitize(o.Name)
	if len(base) > 150 {
		base = base[:150]
	}
	path := filepath.Join(dir, base+".replay.txt")
	var b strings.Builder
	fmt.Fprintf(&b, "property: %s\nobligation: %s\nkind: %s\nfunction: %s\nposition: %s\nstatus: %s\nsolvers: %s\n", prop, o.Name, o.Kind, o.Func, o.Pos, o.Result.Status, strings.Join(o.Result.Tried, ", "))
	fmt.Fprintf(&b, "goal: %s\n", o.Goal.S)
	if data, err := os.ReadFile(smtFile); err == nil {
		keep := filepath.Join(dir, base+".smt2")
		os.WriteFile(keep, data, 0o644)
		fmt.Fprintf(&b, "query: %s\n", keep)
	}
	found := false
	if o.Model != nil {
		model := o.Model
		fmt.Fprintf(&b, "\n--- model (inputs and entry heap) ---\n")
		for _, k := range sortedKeys(model) {
			if strings.HasPrefix(k, "p!") || strings.HasPrefix(k, "|p!") || strings.HasPrefix(k, "H0!") || strings.HasPrefix(k, "|H0!") || strings.HasPrefix(k, "fv!") {
				fmt.Fprintf(&b, "%s = %s\n", k, model[k])
			}
		}
		if gen, ok := replayGens[o.Func]; ok {
			testPath, res, reproduced := gen(P, dir, base, o, model)
			fmt.Fprintf(&b, "\n--- replay on the real code ---\ntest: %s\nreproduced: %v\n%s\n", testPath, reproduced, res)
			found = reproduced
		} else {
			fmt.Fprintf(&b, "\nno replay generator for %s: model not executed\n", o.Func)
		}
	}
	fmt.Fprintf(&b, "\n--- solver output ---\n%s\n%s\n", truncate(o.Result.Output, 20000), truncate(o.ModelText, 20000))
	os.WriteFile(path, []byte(b.String()), 0o644)
	return path, found
}

func truncate(s string, n int) string {
	if len(s) > n {
		return s[:n] + "\n...[truncated]"
	}
	return s
}

type replayGen func(P *Program, dir, base string, o *Obligation, model map[string]string) (testPath string, output string, reproduced bool)

var replayGens = map[string]replayGen{}

func runReplay(path string) int {
	data, err := os.ReadFile(path)
	if err != nil {
		fmt.Fprintln(os.Stderr, err)
		return 2
	}
	fmt.Print(string(data))
	return 0
}
