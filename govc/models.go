package main

import (
	"go/constant"
	"go/token"
	"go/types"
	"strings"

	"golang.org/x/tools/go/ssa"
)

// Trusted models of standard-library functions. Every use is recorded in
// usedTrusted and reported in the evidence file.

type modelFn func(x *Exec, cfg *Config, f *Frame, args []Val, pos token.Pos) (Val, []*Config)

var models map[string]modelFn

func init() {
	models = map[string]modelFn{
		"(*sync.Mutex).Lock":      mLock,
		"(*sync.Mutex).Unlock":    mUnlock,
		"(*sync.RWMutex).Lock":    mLock,
		"(*sync.RWMutex).Unlock":  mUnlock,
		"(*sync.RWMutex).RLock":   mRLock,
		"(*sync.RWMutex).RUnlock": mRUnlock,
		"sync.NewCond":            mNewCond,
		"(*sync.Cond).Signal":     mSignal,
		"(*sync.Cond).Broadcast":  mBroadcast,
		"(*sync.Cond).Wait":       mCondWait,
		"errors.Is":               mErrorsIs,
		"sort.SliceStable":        mSortSlice(true),
		"sort.Slice":              mSortSlice(false),
		"errors.As":               mErrorsAs,
		"errors.New":              mNewError,
		"fmt.Errorf":              mErrorf,
		"context.WithCancel":      mWithCancel,
		"iface:context.Context.Err":  mCtxErr,
		"iface:context.Context.Done": mCtxDone,
		"iface:sync.Locker.Lock":     mLock,
		"iface:sync.Locker.Unlock":   mUnlock,
		"(*sync.Once).Do":            mOnceDo,
		"(*sync/atomic.Int64).Load":           mAtomicLoad,
		"(*sync/atomic.Int64).Store":          mAtomicStore,
		"(*sync/atomic.Int64).Add":            mAtomicAdd,
		"(*sync/atomic.Int64).Swap":           mAtomicSwap,
		"(*sync/atomic.Int64).CompareAndSwap": mAtomicCAS,
		"(*sync/atomic.Int32).Load":           mAtomicLoad,
		"(*sync/atomic.Int32).Store":          mAtomicStore,
		"(*sync/atomic.Int32).Add":            mAtomicAdd,
		"(*sync/atomic.Int32).Swap":           mAtomicSwap,
		"(*sync/atomic.Int32).CompareAndSwap": mAtomicCAS,
		"(*sync/atomic.Bool).Load":            mAtomicLoad,
		"(*sync/atomic.Bool).Store":           mAtomicStore,
		"(*sync/atomic.Bool).Swap":            mAtomicSwap,
		"(*sync/atomic.Bool).CompareAndSwap":  mAtomicCAS,
	}
}

func mFreshResult(name string) modelFn {
	return func(x *Exec, cfg *Config, f *Frame, args []Val, pos token.Pos) (Val, []*Config) {
		return TV{T: x.d.Fresh("ext!"+name, SBool)}, nil
	}
}

func (x *Exec) heldArr(st *State) Term { return x.heapGet(st, "$held", SArr(SInt, SBool)) }

func mLock(x *Exec, cfg *Config, f *Frame, args []Val, pos token.Pos) (Val, []*Config) {
	m := x.tv(args[0])
	x.nilcheck(cfg, m, "mutex", pos)
	held := x.heldArr(cfg.st)
	x.oblige(cfg, "lock-not-held", x.lockName(m), Not(Select(held, m)), nil, pos)
	cfg.st.assume(Not(Select(held, m)))
	// waiting for the lock: other goroutines run, atomics may change
	x.atomicHavoc(cfg)
	x.acquire(cfg, args[0], pos)
	cfg.st.heap["$held"] = Store(x.heldArr(cfg.st), m, True)
	if tv, ok := args[0].(TV); ok && x.lockDeclFor(tv.Org) == nil && x.c != nil && x.c.Options["old"] == "section" {
		cfg.old = cfg.st.clone()
		x.resnapLoopGhost(cfg)
	}
	return TupV{}, nil
}

func mUnlock(x *Exec, cfg *Config, f *Frame, args []Val, pos token.Pos) (Val, []*Config) {
	m := x.tv(args[0])
	x.nilcheck(cfg, m, "mutex", pos)
	held := x.heldArr(cfg.st)
	x.oblige(cfg, "unlock-held", x.lockName(m), Select(held, m), nil, pos)
	cfg.st.assume(Select(held, m))
	x.release(cfg, args[0], pos)
	cfg.st.heap["$held"] = Store(x.heldArr(cfg.st), m, False)
	return TupV{}, nil
}

func mRLock(x *Exec, cfg *Config, f *Frame, args []Val, pos token.Pos) (Val, []*Config) {
	m := x.tv(args[0])
	rh := x.heapGet(cfg.st, "$rheld", SArr(SInt, SBool))
	x.acquire(cfg, args[0], pos)
	cfg.st.heap["$rheld"] = Store(rh, m, True)
	return TupV{}, nil
}

func mRUnlock(x *Exec, cfg *Config, f *Frame, args []Val, pos token.Pos) (Val, []*Config) {
	m := x.tv(args[0])
	rh := x.heapGet(cfg.st, "$rheld", SArr(SInt, SBool))
	x.oblige(cfg, "runlock-held", x.lockName(m), Select(rh, m), nil, pos)
	cfg.st.heap["$rheld"] = Store(rh, m, False)
	return TupV{}, nil
}

func (x *Exec) lockName(m Term) string {
	s := m.S
	s = strings.ReplaceAll(s, "p!", "")
	if len(s) > 60 {
		s = s[:60]
	}
	return s
}

func (x *Exec) condLock(c Term) Term { return x.d.Fun("cond.L", []Sort{SInt}, SInt)(c) }

func mNewCond(x *Exec, cfg *Config, f *Frame, args []Val, pos token.Pos) (Val, []*Config) {
	l := x.tv(args[0])
	c := x.alloc(cfg.st, "cond")
	cfg.st.assume(Eq(x.condLock(c), l))
	return TV{T: c}, nil
}

func mSignal(x *Exec, cfg *Config, f *Frame, args []Val, pos token.Pos) (Val, []*Config) {
	c := x.tv(args[0])
	x.nilcheck(cfg, c, "cond", pos)
	x.condNotify(cfg, args[0], false, pos)
	return TupV{}, nil
}

func mBroadcast(x *Exec, cfg *Config, f *Frame, args []Val, pos token.Pos) (Val, []*Config) {
	c := x.tv(args[0])
	x.nilcheck(cfg, c, "cond", pos)
	x.condNotify(cfg, args[0], true, pos)
	return TupV{}, nil
}

func mCondWait(x *Exec, cfg *Config, f *Frame, args []Val, pos token.Pos) (Val, []*Config) {
	c := x.tv(args[0])
	x.nilcheck(cfg, c, "cond", pos)
	x.condWait(cfg, args[0], pos)
	return TupV{}, nil
}

func mErrorsIs(x *Exec, cfg *Config, f *Frame, args []Val, pos token.Pos) (Val, []*Config) {
	return TV{T: x.errIs(x.tv(args[0]), x.tv(args[1]))}, nil
}

// errors.As(err, target): an uninterpreted function of the error and the
// target (its effect on *target is not modelled).
func mErrorsAs(x *Exec, cfg *Config, f *Frame, args []Val, pos token.Pos) (Val, []*Config) {
	return TV{T: x.errAs(x.tvFor(cfg.st, args[0]), x.tvFor(cfg.st, args[1]))}, nil
}

func (x *Exec) errAs(a, b Term) Term {
	return x.d.Fun("err.as", []Sort{SInt, SInt}, SBool)(a, b)
}

func mNewError(x *Exec, cfg *Config, f *Frame, args []Val, pos token.Pos) (Val, []*Config) {
	r := x.alloc(cfg.st, "error")
	return TV{T: r}, nil
}

// fmt.Errorf: a fresh non-nil error; with %w in a constant format it wraps
// its error operands (errors.Is of the result follows the operands).
func mErrorf(x *Exec, cfg *Config, f *Frame, args []Val, pos token.Pos) (Val, []*Config) {
	r := x.alloc(cfg.st, "error")
	return TV{T: r}, nil
}

func (x *Exec) ctxDoneFn() func(...Term) Term {
	f := x.d.Fun("ctx.done", []Sort{SInt, SInt}, SBool)
	parentOf := x.d.Fun("ctx.parent", []Sort{SInt}, SInt)
	c, e1, e2 := Term{"c", SInt}, Term{"e1", SInt}, Term{"e2", SInt}
	// cancellation is monotone in time and inherited from the parent context
	x.d.Axiom(Forall([]Term{c, e1, e2}, Implies(And(f(c, e1), Le(e1, e2)), f(c, e2)), []Term{f(c, e1), f(c, e2)}))
	x.d.Axiom(Forall([]Term{c, e1}, Implies(f(parentOf(c), e1), f(c, e1)), []Term{f(parentOf(c), e1)}, []Term{f(c, e1)}))
	return f
}

// ctxEpoch advances whenever other goroutines / time may have made progress.
func (x *Exec) ctxEpoch(st *State) Term { return x.heapGet(st, "$epoch", SInt) }

func mWithCancel(x *Exec, cfg *Config, f *Frame, args []Val, pos token.Pos) (Val, []*Config) {
	parent := x.tv(args[0])
	child := x.alloc(cfg.st, "ctx")
	cancel := x.alloc(cfg.st, "cancelfn")
	parentOf := x.d.Fun("ctx.parent", []Sort{SInt}, SInt)
	cfg.st.assume(Eq(parentOf(child), parent))
	cancelOf := x.d.Fun("ctx.cancelfn", []Sort{SInt}, SInt)
	cfg.st.assume(Eq(cancelOf(cancel), child))
	if cfg.st.ctxs == nil {
		cfg.st.ctxs = map[string]*ctxInfo{}
	}
	cfg.st.ctxs[child.S] = &ctxInfo{parent: parent, cancelFn: cancel}
	return TupV{TV{T: child}, TV{T: cancel}}, nil
}

func mCtxErr(x *Exec, cfg *Config, f *Frame, args []Val, pos token.Pos) (Val, []*Config) {
	ctx := x.tv(args[0])
	x.nilcheck(cfg, ctx, "ctx", pos)
	done := x.doneNow(cfg.st, ctx)
	e := x.d.Fresh("ctxerr", SInt)
	cfg.st.assume(Eq(Neq(e, IntLit(0)), done))
	// the Context contract: Err is nil, Canceled or DeadlineExceeded
	canc := x.d.Const("glob!context.Canceled", SInt)
	dl := x.d.Const("glob!context.DeadlineExceeded", SInt)
	x.d.Axiom(Lt(canc, IntLit(0)))
	x.d.Axiom(Lt(dl, IntLit(0)))
	cfg.st.assume(Or(Eq(e, IntLit(0)), Eq(e, canc), Eq(e, dl)))
	return TV{T: e}, nil
}

// doneNow: is the context done at the current moment? A context derived by
// WithCancel on this path is done iff its parent is, until its cancel
// function is called (nobody else holds the cancel function).
func (x *Exec) doneNow(st *State, ctx Term) Term {
	if ci, ok := st.ctxs[ctx.S]; ok {
		if ci.cancelled {
			return True
		}
		return x.doneNow(st, ci.parent)
	}
	return x.ctxDoneFn()(ctx, x.ctxEpoch(st))
}

func mCtxDone(x *Exec, cfg *Config, f *Frame, args []Val, pos token.Pos) (Val, []*Config) {
	ctx := x.tv(args[0])
	x.nilcheck(cfg, ctx, "ctx", pos)
	ch := x.d.Fun("ctx.donechan", []Sort{SInt}, SInt)(ctx)
	return TV{T: ch}, nil
}

func constString(v ssa.Value) (string, bool) {
	if c, ok := v.(*ssa.Const); ok && c.Value != nil && c.Value.Kind() == constant.String {
		return constant.StringVal(c.Value), true
	}
	return "", false
}

var _ = types.Typ


// sync.Once.Do(f) (trusted): exactly one call of Do, over all goroutines, runs
// f; every call of Do returns only after that run has completed (also when f
// panicked). Model: ghost $oncedone[once]. Do is an interference point: another
// goroutine may have completed the once before this call looks, in which case
// the variables captured by f (written by that other run) have arbitrary
// contents. If the once is not done, this call is the unique executor: f runs
// here, then the once is done.
func (x *Exec) onceDoneArr(st *State) Term { return x.heapGet(st, "$oncedone", SArr(SInt, SBool)) }

func mOnceDo(x *Exec, cfg *Config, f *Frame, args []Val, pos token.Pos) (Val, []*Config) {
	once := x.tv(args[0])
	x.nilcheck(cfg, once, "once", pos)
	st := cfg.st
	d0 := Select(x.onceDoneArr(st), once)
	others := x.d.Fresh("once-done-by-others", SBool)
	if x.c != nil && x.c.Options["atomics-sequential"] == "true" {
		others = False // sequential use of the object (assumption listed by atomicHavoc)
	}
	d1 := Or(d0, others)
	x.interfere(cfg)
	var clo *CloV
	switch v := args[1].(type) {
	case *CloV:
		clo = v
	case TV:
		if known, ok := st.clos[v.T.S]; ok {
			clo = known
		}
	}
	// what another executor may have written: the captured cells of f
	if clo != nil {
		for k, b := range clo.Binds {
			a, ok := b.(AddrV)
			if !ok || a.Kind != aCell {
				continue
			}
			_ = k
			arr := x.heapGet(st, a.Arr, SArr(SInt, x.sortOf(a.Elem)))
			fresh := x.d.Fresh("once-cell", x.sortOf(a.Elem))
			st.heap[a.Arr] = Store(arr, a.Base, Ite(And(others, Not(d0)), fresh, Select(arr, a.Base)))
		}
	}
	st.heap["$oncedone"] = Store(x.onceDoneArr(st), once, d1)
	if x.c != nil && x.c.Options["old"] == "section" {
		cfg.old = cfg.st.clone()
		x.resnapLoopGhost(cfg)
	}
	// path B: already done: Do returns without running f
	skip := cfg.clone()
	skip.st.assume(d1)
	skip.top().idx++
	// path A: this call runs f
	st.assume(Not(d1))
	var opd *protoDecl
	var oorg *origin
	if tv, ok := args[0].(TV); ok && tv.Org != nil {
		if pd := x.protoFor(tv.Org); pd != nil {
			opd, oorg = pd, tv.Org
		}
	}
	setDone := func(c *Config) {
		if opd != nil {
			// completing the once is an atomic step of the struct's protocol
			x.protoInterfere(c, opd, oorg)
		}
		c.st.heap["$oncedone"] = Store(x.onceDoneArr(c.st), once, True)
		if opd != nil && opd.inv != nil {
			env := x.protoEnv(c, opd, oorg)
			x.obligeInv(c, env, opd.inv, "protocol-inv", opd.strct+" after Once completes: ", nil, pos, 0)
		}
	}
	if clo != nil && len(clo.Fn.Blocks) > 0 {
		body := clo.Fn
		x.inlined[fullKey(body)] = true
		x.indexDebug(body)
		nf := &Frame{fn: body, regs: map[ssa.Value]Val{}, block: body.Blocks[0], depth: f.depth + 1, isDefer: true, onReturn: setDone}
		for k, fv := range body.FreeVars {
			if k < len(clo.Binds) {
				nf.regs[fv] = x.coerceParam(cfg, clo.Binds[k], fv.Type())
			}
		}
		// the model's caller advances f; the body frame runs first
		cfg.frames = append(cfg.frames, nf)
		return TupV{}, []*Config{skip}
	}
	// unknown function value: one counted call, may panic per contract option
	fv, ok := args[1].(TV)
	if !ok {
		unsupported("sync.Once.Do with a non-scalar function value")
	}
	t := fv.T
	x.oblige(cfg, "nil-func-call", "once body", Neq(t, IntLit(0)), nil, pos)
	var osig *types.Signature
	if ci, ok := f.block.Instrs[f.idx].(ssa.CallInstruction); ok && len(ci.Common().Args) > 1 {
		osig = sigOfType(ci.Common().Args[1].Type())
	}
	x.traceCall(cfg, target{unknown: &t, sig: osig}, nil)
	setDone(cfg)
	return TupV{}, []*Config{skip}
}


// sync/atomic values (trusted: sequentially consistent single actions). The
// value of an atomic object lives in the ghost arrays $atomic (integers) and
// $atomicb (booleans), indexed by the object. Every atomic operation and every
// Lock is an interference point: other goroutines may have changed every
// atomic value, constrained only by the function's declared rely
//   option atomic-rely <expr over aold, anew>      (two-state, e.g. monotone)
//   option atomic-stable-under <mutex expr>        (nobody writes while I hold it)
// which the function's own atomic writes must guarantee in turn.
func (x *Exec) atomicArr(st *State, b bool) (string, Term) {
	if b {
		return "$atomicb", x.heapGet(st, "$atomicb", SArr(SInt, SBool))
	}
	return "$atomic", x.heapGet(st, "$atomic", SArr(SInt, x.idxSort()))
}

func (x *Exec) atomicRelyTerm(cfg *Config, aold, anew Term) Term {
	if x.c == nil || x.c.Options["atomic-rely"] == "" || len(cfg.frames) == 0 {
		return True
	}
	e, err := ParseExpr(x.c.Options["atomic-rely"])
	if err != nil {
		unsupported("option atomic-rely: %v", err)
	}
	env := x.entryEnv(cfg)
	env.frame = cfg.frames[0]
	env.old = cfg.old
	env = env.bind("aold", SpecVal{T: aold}).bind("anew", SpecVal{T: anew})
	return x.specBool(env, e)
}

func (x *Exec) atomicStableTerm(cfg *Config) (Term, bool) {
	if x.c == nil || x.c.Options["atomic-stable-under"] == "" || len(cfg.frames) == 0 {
		return False, false
	}
	e, err := ParseExpr("held(" + x.c.Options["atomic-stable-under"] + ")")
	if err != nil {
		unsupported("option atomic-stable-under: %v", err)
	}
	env := x.entryEnv(cfg)
	env.frame = cfg.frames[0]
	env.old = cfg.old
	return x.specBool(env, e), true
}

func (x *Exec) atomicHavoc(cfg *Config) {
	st := cfg.st
	if x.c != nil && x.c.Options["atomics-sequential"] == "true" {
		// sequential use (stated by the contract, listed as an assumption):
		// no other goroutine touches the atomics during this call
		x.usedTrusted["ASSUMED in "+fullKey(x.fn)+": atomic values are not changed by other goroutines during the call (sequential use of the object)"] = true
		return
	}
	stable, _ := x.atomicStableTerm(cfg)
	if stable.S == "true" {
		// the mutex that keeps the atomics stable is held on this path: no
		// interference on them, and the atomic section continues
		return
	}
	o := Term{"o!at", SInt}
	for _, b := range []bool{false, true} {
		name, cur := x.atomicArr(st, b)
		if _, touched := st.heap[name]; !touched {
			continue
		}
		nw := x.d.Fresh("atomics", cur.Sort)
		rely := True
		if !b {
			rely = x.atomicRelyTerm(cfg, Select(cur, o), Select(nw, o))
		}
		st.assume(Forall([]Term{o}, Ite(stable, Eq(Select(nw, o), Select(cur, o)), rely), []Term{Select(nw, o)}))
		st.heap[name] = nw
	}
	x.interfere(cfg)
	if x.c != nil && x.c.Options["old"] == "section" {
		cfg.old = cfg.st.clone()
		x.resnapLoopGhost(cfg)
	}
}

func isAtomicBool(args []Val, f *Frame, x *Exec) bool { return false }

func (x *Exec) atomicObj(cfg *Config, f *Frame, args []Val, pos token.Pos) (Term, bool) {
	obj := x.tv(args[0])
	x.nilcheck(cfg, obj, "atomic value", pos)
	x.curProto, x.curProtoOrg = nil, nil
	if tv, ok := args[0].(TV); ok && tv.Org != nil {
		if pd := x.protoFor(tv.Org); pd != nil {
			_, isBool := isAtomicType(func() types.Type { _, t := fieldNameOf(tv.Org.STyp, tv.Org.Field); return t }())
			x.atomicArr(cfg.st, isBool)
			x.protoInterfere(cfg, pd, tv.Org)
			x.curProto, x.curProtoOrg = pd, tv.Org
			return obj, isBool
		}
	}
	isBool := false
	in := f.block.Instrs[f.idx]
	if ci, ok := in.(ssa.CallInstruction); ok {
		if fn := ci.Common().StaticCallee(); fn != nil && strings.Contains(fn.String(), "atomic.Bool") {
			isBool = true
		}
	}
	// make sure the array exists before the havoc so that it is havocked
	x.atomicArr(cfg.st, isBool)
	x.atomicHavoc(cfg)
	x.usedTrusted["sync/atomic operations are sequentially consistent single actions; other goroutines change atomic values only as the declared rely allows"] = true
	return obj, isBool
}

func (x *Exec) atomicWrite(cfg *Config, obj Term, isBool bool, nv Term, pos token.Pos) {
	name, arr := x.atomicArr(cfg.st, isBool)
	old := Select(arr, obj)
	// option atomic-write-when <atomic> <cond> [; ...]: every write to that
	// atomic by this function happens in a state satisfying cond
	if x.c != nil && x.c.Options["atomic-write-when"] != "" && len(cfg.frames) > 0 {
		for _, part := range strings.Split(x.c.Options["atomic-write-when"], ";") {
			fs := strings.SplitN(strings.TrimSpace(part), " ", 2)
			if len(fs) != 2 {
				continue
			}
			env := x.entryEnv(cfg)
			env.frame = cfg.frames[0]
			env.old = cfg.old
			target, err := ParseExpr(fs[0])
			if err != nil {
				unsupported("option atomic-write-when: %v", err)
			}
			cond, err := ParseExpr(fs[1])
			if err != nil {
				unsupported("option atomic-write-when: %v", err)
			}
			x.oblige(cfg, "atomic-write-when", fs[0]+" written only when "+fs[1], Implies(Eq(obj, x.specTerm(env, target)), x.specBool(env, cond)), nil, pos)
		}
	}
	if !isBool {
		x.oblige(cfg, "atomic-guarantee", "own atomic write satisfies the declared rely", x.atomicRelyTerm(cfg, old, nv), nil, pos)
	}
	if st, has := x.atomicStableTerm(cfg); has {
		x.oblige(cfg, "atomic-write-under", "atomic write (that changes the value) while holding "+x.c.Options["atomic-stable-under"], Or(st, Eq(old, nv)), nil, pos)
	}
	cfg.st.heap[name] = Store(arr, obj, nv)
	if x.curProto != nil {
		x.protoStep(cfg, x.curProto, x.curProtoOrg, x.curAtomicOp, old, nv, pos)
	}
}

func mAtomicLoad(x *Exec, cfg *Config, f *Frame, args []Val, pos token.Pos) (Val, []*Config) {
	x.curAtomicOp = "Load"
	obj, b := x.atomicObj(cfg, f, args, pos)
	_, arr := x.atomicArr(cfg.st, b)
	return TV{T: Select(arr, obj)}, nil
}

func mAtomicStore(x *Exec, cfg *Config, f *Frame, args []Val, pos token.Pos) (Val, []*Config) {
	x.curAtomicOp = "Store"
	obj, b := x.atomicObj(cfg, f, args, pos)
	x.atomicWrite(cfg, obj, b, x.tv(args[1]), pos)
	return TupV{}, nil
}

func mAtomicAdd(x *Exec, cfg *Config, f *Frame, args []Val, pos token.Pos) (Val, []*Config) {
	x.curAtomicOp = "Add"
	obj, b := x.atomicObj(cfg, f, args, pos)
	_, arr := x.atomicArr(cfg.st, b)
	nv := Add(Select(arr, obj), x.tv(args[1]))
	x.atomicWrite(cfg, obj, b, nv, pos)
	return TV{T: nv}, nil
}

func mAtomicSwap(x *Exec, cfg *Config, f *Frame, args []Val, pos token.Pos) (Val, []*Config) {
	x.curAtomicOp = "Swap"
	obj, b := x.atomicObj(cfg, f, args, pos)
	_, arr := x.atomicArr(cfg.st, b)
	old := Select(arr, obj)
	x.atomicWrite(cfg, obj, b, x.tv(args[1]), pos)
	return TV{T: old}, nil
}

func mAtomicCAS(x *Exec, cfg *Config, f *Frame, args []Val, pos token.Pos) (Val, []*Config) {
	x.curAtomicOp = "CompareAndSwap"
	obj, b := x.atomicObj(cfg, f, args, pos)
	_, arr := x.atomicArr(cfg.st, b)
	cur := Select(arr, obj)
	ok := Eq(cur, x.tv(args[1]))
	x.atomicWrite(cfg, obj, b, Ite(ok, x.tv(args[2]), cur), pos)
	return TV{T: ok}, nil
}

// ---------------------------------------------------------------------------
// sort.SliceStable / sort.Slice
// ---------------------------------------------------------------------------

// mSortSlice models sort.SliceStable(x, less) and sort.Slice(x, less) for a
// less closure that carries a contract with a clause
//
//	ensures less: result == <expr over i, j and the captured variables>
//
// and no modifies clause. TRUSTED (standard library, given that less is a
// strict weak ordering that only reads the slice): afterwards the slice holds
// a permutation of its previous contents (witnessed by the ghost functions
// sortperm / sortinv, readable in contracts) in which no element is less than
// an earlier one, and - SliceStable only - elements that are not ordered by
// less keep their previous relative order.
func mSortSlice(stable bool) modelFn {
	return func(x *Exec, cfg *Config, f *Frame, args []Val, pos token.Pos) (Val, []*Config) {
		st := cfg.st
		sv, ok := args[0].(TV)
		if !ok || sv.Dyn == nil {
			unsupported("sort.Slice: the sorted value is not a slice known at the call site")
		}
		slt, ok := sv.Dyn.Underlying().(*types.Slice)
		if !ok {
			unsupported("sort.Slice on %s", sv.Dyn)
		}
		el := slt.Elem()
		clo, ok := args[1].(*CloV)
		if !ok {
			unsupported("sort.Slice: less is not a closure built at the call site")
		}
		body := clo.Fn
		if len(body.Blocks) == 0 && body.Origin() != nil {
			body = body.Origin()
		}
		c := x.P.ContractFor(body)
		if x.c != nil && x.c.Options["frame-only"] == "true" {
			// frame-only re-run: only the footprint matters - the slice's
			// backing array gets arbitrary contents
			name := x.elemsArr(el)
			rowSort := SArr(x.idxSort(), x.sortOf(el))
			arr := x.heapGet(st, name, SArr(SInt, rowSort))
			st.heap[name] = Store(arr, x.slBase(sv.T), x.d.Fresh("sortedrow", rowSort))
			return TupV{}, nil
		}
		if c == nil {
			unsupported("sort.Slice: the less function %s has no contract", fullKey(body))
		}
		var rhs Expr
		for _, cl := range c.Ensures {
			if cl.Name != "less" {
				continue
			}
			if b, ok := cl.E.(EBinary); ok && b.Op == "==" {
				if id, ok := b.L.(EIdent); ok && id.Name == "result" {
					rhs = b.R
				}
			}
		}
		if rhs == nil || len(c.Modifies) > 0 {
			unsupported("sort.Slice: the contract of %s needs a clause 'ensures less: result == <expr>' and no modifies clause", fullKey(body))
		}
		idx := x.idxSort()
		z := x.intLit(0, idx)
		s := sv.T
		n, off, base := x.slLen(s), x.slOff(s), x.slBase(s)
		p, q, k := Term{"p!ss", idx}, Term{"q!ss", idx}, Term{"k!ss", idx}
		inr := func(t Term) Term { return And(Le(z, t), Lt(t, n)) }
		envAt := func(s *State, a, b Term) *SpecEnv {
			env := x.calleeEnv(cfg, body, c, []Val{TV{T: a}, TV{T: b}}, clo.Binds)
			env = env.withState(s)
			env.old = s
			return env
		}
		reqAt := func(s *State, a, b Term) Term {
			var cs []Term
			for _, r := range c.Requires {
				cs = append(cs, x.specBool(envAt(s, a, b), r.E))
			}
			return And(cs...)
		}
		x.oblige(cfg, "call-pre", "sort: the precondition of the less function holds for every pair of indices", Forall([]Term{p, q}, Implies(And(inr(p), inr(q)), reqAt(st, p, q))), nil, pos)
		kind := "sort.Slice"
		if stable {
			kind = "sort.SliceStable"
		}
		x.usedTrusted["model: "+kind+" (given a strict weak ordering `less` that only reads the slice and whose precondition is invariant under permutation of the slice: sorted"+map[bool]string{true: ", stable", false: ""}[stable]+" permutation)"] = true

		old := st.clone()
		name := x.elemsArr(el)
		rowSort := SArr(idx, x.sortOf(el))
		arr := x.heapGet(st, name, SArr(SInt, rowSort))
		oldRow := Select(arr, base)
		newRow := x.d.Fresh("sortedrow", rowSort)
		perm := x.d.Fresh("sortperm", SArr(idx, idx))
		inv := x.d.Fresh("sortinv", SArr(idx, idx))
		st.heap[name] = Store(arr, base, newRow)
		st.heap["$sortperm"] = perm
		st.heap["$sortinv"] = inv
		// outside the sorted window nothing changes
		st.assume(Forall([]Term{k}, Implies(Or(Lt(k, off), Ge(k, Add(off, n))), Eq(Select(newRow, k), Select(oldRow, k))), []Term{Select(newRow, k)}))
		// permutation with inverse
		newAt := func(t Term) Term { return x.sliceElem(st, s, t, el) }
		oldAt := func(t Term) Term { return x.sliceElem(old, s, t, el) }
		st.assume(Forall([]Term{k}, Implies(inr(k), And(inr(Select(perm, k)), Eq(Select(inv, Select(perm, k)), k), Eq(newAt(k), oldAt(Select(perm, k))))), []Term{Select(perm, k)}))
		st.assume(Forall([]Term{k}, Implies(inr(k), Eq(newAt(k), oldAt(Select(perm, k)))), []Term{newAt(k)}))
		st.assume(Forall([]Term{k}, Implies(inr(k), And(inr(Select(inv, k)), Eq(Select(perm, Select(inv, k)), k))), []Term{Select(inv, k)}))
		// where an old element went (fires on reads of the old contents)
		st.assume(Forall([]Term{k}, Implies(inr(k), And(inr(Select(inv, k)), Eq(Select(perm, Select(inv, k)), k), Eq(newAt(Select(inv, k)), oldAt(k)))), []Term{oldAt(k)}))
		// sorted: no element is less than an earlier one
		lessAt := func(a, b Term) Term { return x.specBool(envAt(st, a, b), rhs) }
		st.assume(Forall([]Term{p, q}, Implies(And(inr(p), inr(q), Lt(p, q)), Not(lessAt(q, p)))))
		if stable {
			st.assume(Forall([]Term{p, q}, Implies(And(inr(p), inr(q), Lt(p, q), Not(lessAt(p, q))), Lt(Select(perm, p), Select(perm, q)))))
		}
		return TupV{}, nil
	}
}
