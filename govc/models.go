package main

import (
	"go/constant"
	"go/token"
	"go/types"
	"strings"

	"golang.org/x/tools/go/ssa"
)

// Trusted models of standard-library functions. Every use is recorded in
// usedTrusted and reported in the evidence file.

type modelFn func(x *Exec, cfg *Config, f *Frame, args []Val, pos token.Pos) (Val, []*Config)

var models map[string]modelFn

func init() {
	models = map[string]modelFn{
		"(*sync.Mutex).Lock":      mLock,
		"(*sync.Mutex).Unlock":    mUnlock,
		"(*sync.RWMutex).Lock":    mLock,
		"(*sync.RWMutex).Unlock":  mUnlock,
		"(*sync.RWMutex).RLock":   mRLock,
		"(*sync.RWMutex).RUnlock": mRUnlock,
		"sync.NewCond":            mNewCond,
		"(*sync.Cond).Signal":     mSignal,
		"(*sync.Cond).Broadcast":  mBroadcast,
		"(*sync.Cond).Wait":       mCondWait,
		"errors.Is":               mErrorsIs,
		"errors.As":               mFreshResult("errors.As"),
		"errors.New":              mNewError,
		"fmt.Errorf":              mErrorf,
		"context.WithCancel":      mWithCancel,
		"iface:context.Context.Err":  mCtxErr,
		"iface:context.Context.Done": mCtxDone,
		"iface:sync.Locker.Lock":     mLock,
		"iface:sync.Locker.Unlock":   mUnlock,
		"(*sync.Once).Do":            mOnceDo,
	}
}

func mFreshResult(name string) modelFn {
	return func(x *Exec, cfg *Config, f *Frame, args []Val, pos token.Pos) (Val, []*Config) {
		return TV{T: x.d.Fresh("ext!"+name, SBool)}, nil
	}
}

func (x *Exec) heldArr(st *State) Term { return x.heapGet(st, "$held", SArr(SInt, SBool)) }

func mLock(x *Exec, cfg *Config, f *Frame, args []Val, pos token.Pos) (Val, []*Config) {
	m := x.tv(args[0])
	x.nilcheck(cfg, m, "mutex", pos)
	held := x.heldArr(cfg.st)
	x.oblige(cfg, "lock-not-held", x.lockName(m), Not(Select(held, m)), nil, pos)
	cfg.st.assume(Not(Select(held, m)))
	x.acquire(cfg, args[0], pos)
	cfg.st.heap["$held"] = Store(x.heldArr(cfg.st), m, True)
	return TupV{}, nil
}

func mUnlock(x *Exec, cfg *Config, f *Frame, args []Val, pos token.Pos) (Val, []*Config) {
	m := x.tv(args[0])
	x.nilcheck(cfg, m, "mutex", pos)
	held := x.heldArr(cfg.st)
	x.oblige(cfg, "unlock-held", x.lockName(m), Select(held, m), nil, pos)
	cfg.st.assume(Select(held, m))
	x.release(cfg, args[0], pos)
	cfg.st.heap["$held"] = Store(x.heldArr(cfg.st), m, False)
	return TupV{}, nil
}

func mRLock(x *Exec, cfg *Config, f *Frame, args []Val, pos token.Pos) (Val, []*Config) {
	m := x.tv(args[0])
	rh := x.heapGet(cfg.st, "$rheld", SArr(SInt, SBool))
	x.acquire(cfg, args[0], pos)
	cfg.st.heap["$rheld"] = Store(rh, m, True)
	return TupV{}, nil
}

func mRUnlock(x *Exec, cfg *Config, f *Frame, args []Val, pos token.Pos) (Val, []*Config) {
	m := x.tv(args[0])
	rh := x.heapGet(cfg.st, "$rheld", SArr(SInt, SBool))
	x.oblige(cfg, "runlock-held", x.lockName(m), Select(rh, m), nil, pos)
	cfg.st.heap["$rheld"] = Store(rh, m, False)
	return TupV{}, nil
}

func (x *Exec) lockName(m Term) string {
	s := m.S
	s = strings.ReplaceAll(s, "p!", "")
	if len(s) > 60 {
		s = s[:60]
	}
	return s
}

func (x *Exec) condLock(c Term) Term { return x.d.Fun("cond.L", []Sort{SInt}, SInt)(c) }

func mNewCond(x *Exec, cfg *Config, f *Frame, args []Val, pos token.Pos) (Val, []*Config) {
	l := x.tv(args[0])
	c := x.alloc(cfg.st, "cond")
	cfg.st.assume(Eq(x.condLock(c), l))
	return TV{T: c}, nil
}

func mSignal(x *Exec, cfg *Config, f *Frame, args []Val, pos token.Pos) (Val, []*Config) {
	c := x.tv(args[0])
	x.nilcheck(cfg, c, "cond", pos)
	x.condNotify(cfg, args[0], false, pos)
	return TupV{}, nil
}

func mBroadcast(x *Exec, cfg *Config, f *Frame, args []Val, pos token.Pos) (Val, []*Config) {
	c := x.tv(args[0])
	x.nilcheck(cfg, c, "cond", pos)
	x.condNotify(cfg, args[0], true, pos)
	return TupV{}, nil
}

func mCondWait(x *Exec, cfg *Config, f *Frame, args []Val, pos token.Pos) (Val, []*Config) {
	c := x.tv(args[0])
	x.nilcheck(cfg, c, "cond", pos)
	x.condWait(cfg, args[0], pos)
	return TupV{}, nil
}

func mErrorsIs(x *Exec, cfg *Config, f *Frame, args []Val, pos token.Pos) (Val, []*Config) {
	return TV{T: x.errIs(x.tv(args[0]), x.tv(args[1]))}, nil
}

func mNewError(x *Exec, cfg *Config, f *Frame, args []Val, pos token.Pos) (Val, []*Config) {
	r := x.alloc(cfg.st, "error")
	return TV{T: r}, nil
}

// fmt.Errorf: a fresh non-nil error; with %w in a constant format it wraps
// its error operands (errors.Is of the result follows the operands).
func mErrorf(x *Exec, cfg *Config, f *Frame, args []Val, pos token.Pos) (Val, []*Config) {
	r := x.alloc(cfg.st, "error")
	return TV{T: r}, nil
}

func (x *Exec) ctxDoneFn() func(...Term) Term {
	f := x.d.Fun("ctx.done", []Sort{SInt, SInt}, SBool)
	parentOf := x.d.Fun("ctx.parent", []Sort{SInt}, SInt)
	c, e1, e2 := Term{"c", SInt}, Term{"e1", SInt}, Term{"e2", SInt}
	// cancellation is monotone in time and inherited from the parent context
	x.d.Axiom(Forall([]Term{c, e1, e2}, Implies(And(f(c, e1), Le(e1, e2)), f(c, e2)), []Term{f(c, e1), f(c, e2)}))
	x.d.Axiom(Forall([]Term{c, e1}, Implies(f(parentOf(c), e1), f(c, e1)), []Term{f(parentOf(c), e1)}, []Term{f(c, e1)}))
	return f
}

// ctxEpoch advances whenever other goroutines / time may have made progress.
func (x *Exec) ctxEpoch(st *State) Term { return x.heapGet(st, "$epoch", SInt) }

func mWithCancel(x *Exec, cfg *Config, f *Frame, args []Val, pos token.Pos) (Val, []*Config) {
	parent := x.tv(args[0])
	child := x.alloc(cfg.st, "ctx")
	cancel := x.alloc(cfg.st, "cancelfn")
	parentOf := x.d.Fun("ctx.parent", []Sort{SInt}, SInt)
	cfg.st.assume(Eq(parentOf(child), parent))
	cancelOf := x.d.Fun("ctx.cancelfn", []Sort{SInt}, SInt)
	cfg.st.assume(Eq(cancelOf(cancel), child))
	if cfg.st.ctxs == nil {
		cfg.st.ctxs = map[string]*ctxInfo{}
	}
	cfg.st.ctxs[child.S] = &ctxInfo{parent: parent, cancelFn: cancel}
	return TupV{TV{T: child}, TV{T: cancel}}, nil
}

func mCtxErr(x *Exec, cfg *Config, f *Frame, args []Val, pos token.Pos) (Val, []*Config) {
	ctx := x.tv(args[0])
	x.nilcheck(cfg, ctx, "ctx", pos)
	done := x.doneNow(cfg.st, ctx)
	e := x.d.Fresh("ctxerr", SInt)
	cfg.st.assume(Eq(Neq(e, IntLit(0)), done))
	// the Context contract: Err is nil, Canceled or DeadlineExceeded
	canc := x.d.Const("glob!context.Canceled", SInt)
	dl := x.d.Const("glob!context.DeadlineExceeded", SInt)
	x.d.Axiom(Lt(canc, IntLit(0)))
	x.d.Axiom(Lt(dl, IntLit(0)))
	cfg.st.assume(Or(Eq(e, IntLit(0)), Eq(e, canc), Eq(e, dl)))
	return TV{T: e}, nil
}

// doneNow: is the context done at the current moment? A context derived by
// WithCancel on this path is done iff its parent is, until its cancel
// function is called (nobody else holds the cancel function).
func (x *Exec) doneNow(st *State, ctx Term) Term {
	if ci, ok := st.ctxs[ctx.S]; ok {
		if ci.cancelled {
			return True
		}
		return x.doneNow(st, ci.parent)
	}
	return x.ctxDoneFn()(ctx, x.ctxEpoch(st))
}

func mCtxDone(x *Exec, cfg *Config, f *Frame, args []Val, pos token.Pos) (Val, []*Config) {
	ctx := x.tv(args[0])
	x.nilcheck(cfg, ctx, "ctx", pos)
	ch := x.d.Fun("ctx.donechan", []Sort{SInt}, SInt)(ctx)
	return TV{T: ch}, nil
}

func constString(v ssa.Value) (string, bool) {
	if c, ok := v.(*ssa.Const); ok && c.Value != nil && c.Value.Kind() == constant.String {
		return constant.StringVal(c.Value), true
	}
	return "", false
}

var _ = types.Typ


// sync.Once.Do(f) (trusted): exactly one call of Do, over all goroutines, runs
// f; every call of Do returns only after that run has completed (also when f
// panicked). Model: ghost $oncedone[once]. Do is an interference point: another
// goroutine may have completed the once before this call looks, in which case
// the variables captured by f (written by that other run) have arbitrary
// contents. If the once is not done, this call is the unique executor: f runs
// here, then the once is done.
func (x *Exec) onceDoneArr(st *State) Term { return x.heapGet(st, "$oncedone", SArr(SInt, SBool)) }

func mOnceDo(x *Exec, cfg *Config, f *Frame, args []Val, pos token.Pos) (Val, []*Config) {
	once := x.tv(args[0])
	x.nilcheck(cfg, once, "once", pos)
	st := cfg.st
	d0 := Select(x.onceDoneArr(st), once)
	others := x.d.Fresh("once-done-by-others", SBool)
	d1 := Or(d0, others)
	x.interfere(cfg)
	var clo *CloV
	switch v := args[1].(type) {
	case *CloV:
		clo = v
	case TV:
		if known, ok := st.clos[v.T.S]; ok {
			clo = known
		}
	}
	// what another executor may have written: the captured cells of f
	if clo != nil {
		for k, b := range clo.Binds {
			a, ok := b.(AddrV)
			if !ok || a.Kind != aCell {
				continue
			}
			_ = k
			arr := x.heapGet(st, a.Arr, SArr(SInt, x.sortOf(a.Elem)))
			fresh := x.d.Fresh("once-cell", x.sortOf(a.Elem))
			st.heap[a.Arr] = Store(arr, a.Base, Ite(And(others, Not(d0)), fresh, Select(arr, a.Base)))
		}
	}
	st.heap["$oncedone"] = Store(x.onceDoneArr(st), once, d1)
	if x.c != nil && x.c.Options["old"] == "section" {
		cfg.old = cfg.st.clone()
	}
	// path B: already done: Do returns without running f
	skip := cfg.clone()
	skip.st.assume(d1)
	skip.top().idx++
	// path A: this call runs f
	st.assume(Not(d1))
	setDone := func(c *Config) {
		c.st.heap["$oncedone"] = Store(x.onceDoneArr(c.st), once, True)
	}
	if clo != nil && len(clo.Fn.Blocks) > 0 {
		body := clo.Fn
		x.inlined[fullKey(body)] = true
		x.indexDebug(body)
		nf := &Frame{fn: body, regs: map[ssa.Value]Val{}, block: body.Blocks[0], depth: f.depth + 1, isDefer: true, onReturn: setDone}
		for k, fv := range body.FreeVars {
			if k < len(clo.Binds) {
				nf.regs[fv] = x.coerceParam(cfg, clo.Binds[k], fv.Type())
			}
		}
		// the model's caller advances f; the body frame runs first
		cfg.frames = append(cfg.frames, nf)
		return TupV{}, []*Config{skip}
	}
	// unknown function value: one counted call, may panic per contract option
	fv, ok := args[1].(TV)
	if !ok {
		unsupported("sync.Once.Do with a non-scalar function value")
	}
	t := fv.T
	x.oblige(cfg, "nil-func-call", "once body", Neq(t, IntLit(0)), nil, pos)
	x.traceCall(cfg, target{unknown: &t}, nil)
	setDone(cfg)
	return TupV{}, []*Config{skip}
}
