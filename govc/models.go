package main

import (
	"go/constant"
	"go/token"
	"go/types"
	"strings"

	"golang.org/x/tools/go/ssa"
)

// Trusted models of standard-library functions. Every use is recorded in
// usedTrusted and reported in the evidence file.

type modelFn func(x *Exec, cfg *Config, f *Frame, args []Val, pos token.Pos) (Val, []*Config)

var models map[string]modelFn

func init() {
	models = map[string]modelFn{
		"(*sync.Mutex).Lock":      mLock,
		"(*sync.Mutex).Unlock":    mUnlock,
		"(*sync.RWMutex).Lock":    mLock,
		"(*sync.RWMutex).Unlock":  mUnlock,
		"(*sync.RWMutex).RLock":   mRLock,
		"(*sync.RWMutex).RUnlock": mRUnlock,
		"sync.NewCond":            mNewCond,
		"(*sync.Cond).Signal":     mSignal,
		"(*sync.Cond).Broadcast":  mBroadcast,
		"(*sync.Cond).Wait":       mCondWait,
		"errors.Is":               mErrorsIs,
		"errors.As":               mFreshResult("errors.As"),
		"errors.New":              mNewError,
		"fmt.Errorf":              mErrorf,
		"context.WithCancel":      mWithCancel,
		"iface:context.Context.Err":  mCtxErr,
		"iface:context.Context.Done": mCtxDone,
		"iface:sync.Locker.Lock":     mLock,
		"iface:sync.Locker.Unlock":   mUnlock,
	}
}

func mFreshResult(name string) modelFn {
	return func(x *Exec, cfg *Config, f *Frame, args []Val, pos token.Pos) (Val, []*Config) {
		return TV{T: x.d.Fresh("ext!"+name, SBool)}, nil
	}
}

func (x *Exec) heldArr(st *State) Term { return x.heapGet(st, "$held", SArr(SInt, SBool)) }

func mLock(x *Exec, cfg *Config, f *Frame, args []Val, pos token.Pos) (Val, []*Config) {
	m := x.tv(args[0])
	x.nilcheck(cfg, m, "mutex", pos)
	held := x.heldArr(cfg.st)
	x.oblige(cfg, "lock-not-held", x.lockName(m), Not(Select(held, m)), nil, pos)
	cfg.st.assume(Not(Select(held, m)))
	x.acquire(cfg, m, pos)
	cfg.st.heap["$held"] = Store(x.heldArr(cfg.st), m, True)
	return TupV{}, nil
}

func mUnlock(x *Exec, cfg *Config, f *Frame, args []Val, pos token.Pos) (Val, []*Config) {
	m := x.tv(args[0])
	x.nilcheck(cfg, m, "mutex", pos)
	held := x.heldArr(cfg.st)
	x.oblige(cfg, "unlock-held", x.lockName(m), Select(held, m), nil, pos)
	cfg.st.assume(Select(held, m))
	x.release(cfg, m, pos)
	cfg.st.heap["$held"] = Store(x.heldArr(cfg.st), m, False)
	return TupV{}, nil
}

func mRLock(x *Exec, cfg *Config, f *Frame, args []Val, pos token.Pos) (Val, []*Config) {
	m := x.tv(args[0])
	rh := x.heapGet(cfg.st, "$rheld", SArr(SInt, SBool))
	x.acquire(cfg, m, pos)
	cfg.st.heap["$rheld"] = Store(rh, m, True)
	return TupV{}, nil
}

func mRUnlock(x *Exec, cfg *Config, f *Frame, args []Val, pos token.Pos) (Val, []*Config) {
	m := x.tv(args[0])
	rh := x.heapGet(cfg.st, "$rheld", SArr(SInt, SBool))
	x.oblige(cfg, "runlock-held", x.lockName(m), Select(rh, m), nil, pos)
	cfg.st.heap["$rheld"] = Store(rh, m, False)
	return TupV{}, nil
}

func (x *Exec) lockName(m Term) string {
	s := m.S
	s = strings.ReplaceAll(s, "p!", "")
	if len(s) > 60 {
		s = s[:60]
	}
	return s
}

func (x *Exec) condLock(c Term) Term { return x.d.Fun("cond.L", []Sort{SInt}, SInt)(c) }

func mNewCond(x *Exec, cfg *Config, f *Frame, args []Val, pos token.Pos) (Val, []*Config) {
	l := x.tv(args[0])
	c := x.alloc(cfg.st, "cond")
	cfg.st.assume(Eq(x.condLock(c), l))
	return TV{T: c}, nil
}

func mSignal(x *Exec, cfg *Config, f *Frame, args []Val, pos token.Pos) (Val, []*Config) {
	c := x.tv(args[0])
	x.nilcheck(cfg, c, "cond", pos)
	x.condNotify(cfg, c, false, pos)
	return TupV{}, nil
}

func mBroadcast(x *Exec, cfg *Config, f *Frame, args []Val, pos token.Pos) (Val, []*Config) {
	c := x.tv(args[0])
	x.nilcheck(cfg, c, "cond", pos)
	x.condNotify(cfg, c, true, pos)
	return TupV{}, nil
}

func mCondWait(x *Exec, cfg *Config, f *Frame, args []Val, pos token.Pos) (Val, []*Config) {
	c := x.tv(args[0])
	x.nilcheck(cfg, c, "cond", pos)
	x.condWait(cfg, c, pos)
	return TupV{}, nil
}

func mErrorsIs(x *Exec, cfg *Config, f *Frame, args []Val, pos token.Pos) (Val, []*Config) {
	return TV{T: x.errIs(x.tv(args[0]), x.tv(args[1]))}, nil
}

func mNewError(x *Exec, cfg *Config, f *Frame, args []Val, pos token.Pos) (Val, []*Config) {
	r := x.alloc(cfg.st, "error")
	return TV{T: r}, nil
}

// fmt.Errorf: a fresh non-nil error; with %w in a constant format it wraps
// its error operands (errors.Is of the result follows the operands).
func mErrorf(x *Exec, cfg *Config, f *Frame, args []Val, pos token.Pos) (Val, []*Config) {
	r := x.alloc(cfg.st, "error")
	return TV{T: r}, nil
}

func (x *Exec) ctxDoneFn() func(...Term) Term { return x.d.Fun("ctx.done", []Sort{SInt, SInt}, SBool) }

// ctxEpoch advances whenever other goroutines / time may have made progress.
func (x *Exec) ctxEpoch(st *State) Term { return x.heapGet(st, "$epoch", SInt) }

func mWithCancel(x *Exec, cfg *Config, f *Frame, args []Val, pos token.Pos) (Val, []*Config) {
	parent := x.tv(args[0])
	child := x.alloc(cfg.st, "ctx")
	cancel := x.alloc(cfg.st, "cancelfn")
	parentOf := x.d.Fun("ctx.parent", []Sort{SInt}, SInt)
	cfg.st.assume(Eq(parentOf(child), parent))
	cancelOf := x.d.Fun("ctx.cancelfn", []Sort{SInt}, SInt)
	cfg.st.assume(Eq(cancelOf(cancel), child))
	return TupV{TV{T: child}, TV{T: cancel}}, nil
}

func mCtxErr(x *Exec, cfg *Config, f *Frame, args []Val, pos token.Pos) (Val, []*Config) {
	ctx := x.tv(args[0])
	x.nilcheck(cfg, ctx, "ctx", pos)
	done := x.ctxDoneFn()(ctx, x.ctxEpoch(cfg.st))
	e := x.d.Fresh("ctxerr", SInt)
	cfg.st.assume(Eq(Neq(e, IntLit(0)), done))
	return TV{T: e}, nil
}

func mCtxDone(x *Exec, cfg *Config, f *Frame, args []Val, pos token.Pos) (Val, []*Config) {
	ctx := x.tv(args[0])
	x.nilcheck(cfg, ctx, "ctx", pos)
	ch := x.d.Fun("ctx.donechan", []Sort{SInt}, SInt)(ctx)
	return TV{T: ch}, nil
}

func constString(v ssa.Value) (string, bool) {
	if c, ok := v.(*ssa.Const); ok && c.Value != nil && c.Value.Kind() == constant.String {
		return constant.StringVal(c.Value), true
	}
	return "", false
}

var _ = types.Typ
