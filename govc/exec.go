package main

import (
	"os"
	"runtime/debug"
	"bytes"
	"fmt"
	"go/ast"
	"go/printer"
	"go/token"
	"go/types"
	"sort"
	"strings"

	"golang.org/x/tools/go/ssa"
)

// ---------------------------------------------------------------------------
// Values
// ---------------------------------------------------------------------------

type Val interface{}

// TV is a scalar value: ints, bools, floats, references (pointers to structs,
// interfaces, maps, chans, funcs, strings, slices are all Int-sorted ids).
type TV struct {
	T   Term
	Dyn types.Type // statically known dynamic type of an interface value, if any
	Org *origin    // where the value was read from (struct field), if known
}

// origin records that a value is field Field of object Base (either the
// address of an embedded struct or the content of a pointer field).
type origin struct {
	STyp  types.Type
	Field int
	Base  Term
}

// SV is a struct held by value.
type SV struct {
	Ty types.Type
	F  []Val
}

type addrKind int

const (
	aField addrKind = iota
	aCell
	aElem
	aGlobal
)

// AddrV is the address of a non-struct location.
type AddrV struct {
	Kind addrKind
	Arr  string // heap array name
	Base Term   // object / cell / backing-array reference
	Idx  Term   // element index (aElem)
	Elem types.Type
	G    *ssa.Global
	STyp types.Type // aField: struct type and field index
	FIdx int
	Slice Term // aElem via a slice: the slice header and the index within it
	SIdx  Term
}

type TupV []Val

// CloV is a closure or bound method known on this path.
type CloV struct {
	Fn    *ssa.Function
	Binds []Val
	ID    Term
	// Targs: type arguments of the (instantiated generic) function that built
	// the closure; its body is the generic one and needs them
	Targs map[string]types.Type
}

// ---------------------------------------------------------------------------
// State, frames, configurations
// ---------------------------------------------------------------------------

type State struct {
	heap map[string]Term
	pc   []Term
	// nonnil caches reference terms already known non-nil on this path
	nonnil map[string]bool
	clos   map[string]*CloV
	ctxs   map[string]*ctxInfo // derived contexts created on this path
	orgs   map[string]*origin  // provenance of terms read from struct fields
	// goroutines started on this path that block on a context's Done channel
	watchers []*watcher
	// gepoch: version of the ghost call/once/atomic/channel arrays that are
	// created lazily; bumped whenever they are havocked wholesale
	gepoch int
}

type watcher struct {
	tg   target
	args []Val
	ran  bool
}

type ctxInfo struct {
	parent    Term
	cancelFn  Term
	cancelled bool
}

func (s *State) clone() *State {
	n := &State{heap: make(map[string]Term, len(s.heap)), pc: append([]Term(nil), s.pc...), nonnil: make(map[string]bool, len(s.nonnil)), clos: make(map[string]*CloV, len(s.clos)), gepoch: s.gepoch}
	for k, v := range s.heap {
		n.heap[k] = v
	}
	for k, v := range s.nonnil {
		n.nonnil[k] = v
	}
	for k, v := range s.clos {
		n.clos[k] = v
	}
	for _, w := range s.watchers {
		c := *w
		n.watchers = append(n.watchers, &c)
	}
	if len(s.orgs) > 0 {
		n.orgs = make(map[string]*origin, len(s.orgs))
		for k, v := range s.orgs {
			n.orgs[k] = v
		}
	}
	if len(s.ctxs) > 0 {
		n.ctxs = make(map[string]*ctxInfo, len(s.ctxs))
		for k, v := range s.ctxs {
			c := *v
			n.ctxs[k] = &c
		}
	}
	return n
}

func (s *State) assume(t Term) {
	if t.S == "true" {
		return
	}
	s.pc = append(s.pc, t)
}

type deferredCall struct {
	call *ssa.CallCommon
	fn   Val
	args []Val
	pos  token.Pos
}

type Frame struct {
	fn        *ssa.Function
	regs      map[ssa.Value]Val
	block     *ssa.BasicBlock
	prev      *ssa.BasicBlock
	idx       int
	defers    []*deferredCall
	callInstr ssa.Instruction // call in the caller that created this frame (nil for deferred calls)
	isDefer   bool            // frame runs a deferred call of the caller
	unwinding bool
	depth     int
	binds     []Val // free variable bindings
	watcher   *watcher // frame runs a goroutine that was waiting on a channel
	onReturn  func(cfg *Config) // run when the frame is popped (normally or by a panic)
	targs     map[string]types.Type // type arguments of an inlined generic instantiation, by type parameter name
}

func (f *Frame) clone() *Frame {
	n := *f
	n.regs = make(map[ssa.Value]Val, len(f.regs))
	for k, v := range f.regs {
		n.regs[k] = v
	}
	n.defers = append([]*deferredCall(nil), f.defers...)
	return &n
}

type loopEntry struct {
	header  *ssa.BasicBlock
	depth   int // frame depth the loop belongs to (0: the function under verification)
	ghost   map[string]Term // ghost call/once/atomic/channel arrays at the loop head (contracts silent about them)
	gepoch  int
	decInit Term
	hasDec  bool
	oldHeap map[string]Term
}

type Config struct {
	frames    []*Frame
	st        *State
	panicking bool
	panicVal  Term
	recovered bool
	loops     []*loopEntry // active loops of the top frame (innermost last)
	old       *State       // entry snapshot (top-level function)
	trace     []string
	heldLocks []heldLock // mutexes with a lock invariant currently held on this path
	pendingW  []*watcher // goroutines to try to run after a close / cancel
	closedNow bool       // a channel was just closed: run watchers after the instruction
	kind      string     // waiter kind this path is verified for (option waitkinds a b)
	ghostDone bool       // the contract's ghostsets were applied at the Unlock already
}

type heldLock struct {
	ld *lockDecl
	o  *origin
}

func (c *Config) clone() *Config {
	n := &Config{st: c.st.clone(), panicking: c.panicking, panicVal: c.panicVal, recovered: c.recovered, old: c.old, kind: c.kind, ghostDone: c.ghostDone}
	for _, f := range c.frames {
		n.frames = append(n.frames, f.clone())
	}
	n.loops = append([]*loopEntry(nil), c.loops...)
	n.trace = append([]string(nil), c.trace...)
	n.heldLocks = append([]heldLock(nil), c.heldLocks...)
	n.pendingW = nil
	return n
}

func (c *Config) top() *Frame { return c.frames[len(c.frames)-1] }

// ---------------------------------------------------------------------------
// Obligations
// ---------------------------------------------------------------------------

type Obligation struct {
	Name        string
	Kind        string
	Func        string
	Props       []string
	Assumptions []Term
	Goal        Term
	Decls       *Decls
	Detail      string
	Pos         string
	Canary      bool // must NOT be provable
	Quantified  bool

	Result    SolveResult
	Model     map[string]string
	ModelText string
}

// unsupportedErr aborts a path because the code left the modelled subset.
type unsupportedErr struct{ msg string }

func unsupported(format string, args ...interface{}) {
	if os.Getenv("VERIF_TRACE_UNSUPPORTED") != "" {
		fmt.Fprintf(os.Stderr, "unsupported: %s\n%s\n", fmt.Sprintf(format, args...), debug.Stack())
	}
	panic(unsupportedErr{fmt.Sprintf(format, args...)})
}

// ---------------------------------------------------------------------------
// Exec: verification of one function
// ---------------------------------------------------------------------------

type Exec struct {
	P        *Program
	fn       *ssa.Function
	c        *FuncContract
	d        *Decls
	mode     string // "int" or "bv"
	obls     []*Obligation
	oblNames map[string]int
	notes    []string // unsupported / abstracted events
	abstract bool
	paths    int
	maxPaths int
	loops    *loopInfo
	names    map[string][]ssa.Value // source name -> ssa values (debug refs)
	valNames map[ssa.Value]string
	strs     map[string]Term
	usedTrusted map[string]bool
	inlined  map[string]bool
	calledContracts map[string]bool
	curProps []string
	specDepth int
	exitPCs  []Term
	arrSorts map[string]Sort
	ifaceParams []string
	frameSorts  map[string]Sort
	curProto    *protoDecl
	curProtoOrg *origin
	curAtomicOp string
	protoBefore *State
	spawned  []string
	frameLocs  map[string][]Term // modifies clause resolved at entry: array -> locations
	frameWhole map[string]bool
	frameReady bool
	curCfg     *Config
	taggedTypes map[string]types.Type
	implPreds   []implPred2
}

func NewExec(P *Program, fn *ssa.Function, c *FuncContract) *Exec {
	x := &Exec{P: P, fn: fn, c: c, d: NewDecls(), mode: "int", oblNames: map[string]int{}, maxPaths: 4096,
		strs: map[string]Term{}, usedTrusted: map[string]bool{}, inlined: map[string]bool{}, calledContracts: map[string]bool{}}
	if c != nil && c.Mode != "" {
		x.mode = c.Mode
	}
	x.indexDebug(fn)
	return x
}

func (x *Exec) intSort(t types.Type) Sort {
	if x.mode != "bv" {
		return SInt
	}
	b, ok := t.Underlying().(*types.Basic)
	if !ok {
		return SBV(64)
	}
	switch b.Kind() {
	case types.Int8, types.Uint8:
		return SBV(8)
	case types.Int16, types.Uint16:
		return SBV(16)
	case types.Int32, types.Uint32:
		return SBV(32)
	default:
		return SBV(64)
	}
}

func (x *Exec) idxSort() Sort {
	if x.mode == "bv" {
		return SBV(64)
	}
	return SInt
}

func (x *Exec) intLit(n int64, s Sort) Term {
	if s.IsBV() {
		return BVLit(uint64(n), s.BVWidth())
	}
	if s == SReal {
		if n < 0 {
			return Term{fmt.Sprintf("(- %d.0)", -n), SReal}
		}
		return Term{fmt.Sprintf("%d.0", n), SReal}
	}
	return IntLit(n)
}

func isUnsigned(t types.Type) bool {
	b, ok := t.Underlying().(*types.Basic)
	return ok && b.Info()&types.IsUnsigned != 0
}

// sortOf maps a Go type to the sort of its scalar representation.
func (x *Exec) sortOf(t types.Type) Sort {
	if tp, ok := t.(*types.TypeParam); ok {
		// inside an inlined instantiation the type argument is known
		if x.curCfg != nil && len(x.curCfg.frames) > 0 {
			if ta, ok := x.curCfg.top().targs[tp.Obj().Name()]; ok {
				if _, again := ta.(*types.TypeParam); !again {
					return x.sortOf(ta)
				}
			}
		}
		return SInt
	}
	switch u := t.Underlying().(type) {
	case *types.Basic:
		switch {
		case u.Info()&types.IsBoolean != 0:
			return SBool
		case u.Info()&types.IsInteger != 0:
			return x.intSort(t)
		case u.Info()&types.IsFloat != 0:
			return SReal
		case u.Info()&types.IsString != 0:
			return SInt
		case u.Kind() == types.UnsafePointer, u.Kind() == types.UntypedNil:
			return SInt
		}
		unsupported("basic type %s", t)
	case *types.Pointer, *types.Interface, *types.Map, *types.Chan, *types.Signature, *types.Slice:
		return SInt
	case *types.Struct, *types.Array, *types.Tuple:
		return SInt // by-reference id when forced into a scalar
	}
	if _, ok := t.(*types.TypeParam); ok {
		return SInt
	}
	return SInt
}

func isStructType(t types.Type) bool {
	_, ok := t.Underlying().(*types.Struct)
	if _, tp := t.(*types.TypeParam); tp {
		return false
	}
	return ok
}

func derefType(t types.Type) types.Type {
	if p, ok := t.Underlying().(*types.Pointer); ok {
		return p.Elem()
	}
	return nil
}

// typeName gives a stable name for a (possibly generic) named type, without
// type arguments.
func typeName(t types.Type) string {
	switch tt := t.(type) {
	case *types.Named:
		o := tt.Obj()
		if o.Pkg() != nil {
			return pkgShortAny(o.Pkg().Path()) + "." + o.Name()
		}
		return o.Name()
	case *types.Pointer:
		return "*" + typeName(tt.Elem())
	case *types.TypeParam:
		return "T"
	case *types.Slice:
		return "[]" + typeName(tt.Elem())
	case *types.Basic:
		return tt.Name()
	case *types.Struct:
		return "struct"
	case *types.Interface:
		if tt.Empty() {
			return "any"
		}
		return "iface"
	case *types.Signature:
		return "func"
	case *types.Map:
		return "map[" + typeName(tt.Key()) + "]" + typeName(tt.Elem())
	case *types.Chan:
		return "chan " + typeName(tt.Elem())
	}
	return strings.ReplaceAll(t.String(), " ", "")
}

func pkgShortAny(path string) string {
	if strings.HasPrefix(path, modulePath) {
		return pkgShort(path)
	}
	return path
}

func (x *Exec) fieldArrName(st types.Type, idx int) (string, *types.Var) {
	s := st.Underlying().(*types.Struct)
	f := s.Field(idx)
	return typeName(st) + "." + f.Name(), f
}

// heapGet returns the current version of a heap array, creating the initial
// (entry) version on first use.
func (x *Exec) heapGet(st *State, name string, sort Sort) Term {
	if t, ok := st.heap[name]; ok {
		if t.Sort != sort {
			panic(fmt.Sprintf("heap array %s sort %s vs %s", name, t.Sort, sort))
		}
		return t
	}
	t := x.d.Const("H0!"+name, sort)
	if isGhostStateArr(name) && st.gepoch > 0 {
		t = x.d.Const(fmt.Sprintf("G%d!%s", st.gepoch, name), sort)
	}
	st.heap[name] = t
	return t
}

// isGhostStateArr: the ghost arrays describing calls of unknown function
// values, sync.Once, atomics and channels.
func isGhostStateArr(name string) bool {
	if strings.HasPrefix(name, "$calls!") || strings.HasPrefix(name, "$callret!") {
		return true
	}
	switch name {
	case "$oncedone", "$atomic", "$atomicb", "$closed", "$recvready":
		return true
	}
	return false
}

// havocGhostState forgets everything about the ghost call/once/atomic/channel
// arrays, including those not materialised yet on this path.
func (x *Exec) havocGhostState(st *State) {
	x.d.fresh["gepoch"]++
	st.gepoch = x.d.fresh["gepoch"]
	for name := range st.heap {
		if isGhostStateArr(name) {
			delete(st.heap, name)
		}
	}
}

// contractTouchesGhostState: does the contract speak about calls of unknown
// functions, once / atomic / channel state (then its callers must forget
// them), or is it frameless?
func contractTouchesGhostState(c *FuncContract) bool {
	if c.Options["ghost"] == "any" {
		return true // declared: may change any ghost call/once/atomic/channel state
	}
	has := func(t string) bool {
		for _, k := range []string{"calls(", "callret", "oncedone(", "atomicval(", "atomicbool(", "closedch(", "recvready("} {
			if strings.Contains(t, k) {
				return true
			}
		}
		return false
	}
	for _, cl := range c.Ensures {
		if has(cl.Text) {
			return true
		}
	}
	for _, cl := range c.EnsuresPanic {
		if has(cl.Text) {
			return true
		}
	}
	for _, cl := range c.Modifies {
		if has(cl.Text) {
			return true
		}
	}
	return false
}

func (x *Exec) fieldArr(st *State, styp types.Type, idx int) (string, Term, *types.Var) {
	name, f := x.fieldArrName(styp, idx)
	if isStructType(f.Type()) {
		unsupported("field array of embedded struct %s", name)
	}
	return name, x.heapGet(st, name, SArr(SInt, x.sortOf(f.Type()))), f
}

var subTagIDs map[string]int64

// subRef is the reference of a struct embedded by value in another struct.
func (x *Exec) subRef(styp types.Type, idx int, base Term) Term {
	name, _ := x.fieldArrName(styp, idx)
	f := x.d.Fun("sub!"+name, []Sort{SInt}, SInt)
	inv := x.d.Fun("subinv!"+name, []Sort{SInt}, SInt)
	v := Term{"o", SInt}
	root := x.d.Fun("subroot", []Sort{SInt}, SInt)
	// sub-objects of different fields are different objects: each field has
	// its own tag
	tag := x.d.Fun("subtag", []Sort{SInt}, SInt)
	if subTagIDs == nil {
		subTagIDs = map[string]int64{}
	}
	id, ok := subTagIDs[name]
	if !ok {
		id = int64(len(subTagIDs) + 1)
		subTagIDs[name] = id
	}
	x.d.Axiom(Forall([]Term{v}, And(Eq(inv(f(v)), v), Lt(f(v), IntLit(0)), Eq(root(f(v)), Ite(Gt(v, IntLit(0)), v, root(v))), Eq(tag(f(v)), IntLit(id))), []Term{f(v)}))
	return f(base)
}

func (x *Exec) top(st *State) Term { return x.heapGet(st, "$top", SInt) }

// alloc produces a fresh reference.
func (x *Exec) alloc(st *State, hint string) Term {
	r := x.d.Fresh("new!"+hint, SInt)
	top := x.top(st)
	st.assume(Eq(r, Add(top, IntLit(1))))
	st.heap["$top"] = r
	st.nonnil[r.S] = true
	return r
}

// validRef assumes that a reference read from the pre-existing heap or a
// parameter was allocated before now.
func (x *Exec) assumeValid(st *State, r Term) {
	st.assume(Le(r, x.top(st)))
}

func (x *Exec) zeroOf(t types.Type) Val {
	if isStructType(t) {
		s := t.Underlying().(*types.Struct)
		sv := SV{Ty: t}
		for i := 0; i < s.NumFields(); i++ {
			sv.F = append(sv.F, x.zeroOf(s.Field(i).Type()))
		}
		return sv
	}
	if tup, ok := t.(*types.Tuple); ok {
		var tv TupV
		for i := 0; i < tup.Len(); i++ {
			tv = append(tv, x.zeroOf(tup.At(i).Type()))
		}
		return tv
	}
	return TV{T: x.zeroTerm(t)}
}

func (x *Exec) zeroTerm(t types.Type) Term {
	if tp, ok := t.(*types.TypeParam); ok {
		// inside an inlined instantiation of a generic function the type
		// argument is known: its zero value is concrete (nil for pointers...)
		if x.curCfg != nil && len(x.curCfg.frames) > 0 {
			if ta, ok := x.curCfg.top().targs[tp.Obj().Name()]; ok {
				if _, again := ta.(*types.TypeParam); !again {
					return x.zeroTerm(ta)
				}
			}
		}
		return x.d.Const("zero!T", SInt)
	}
	s := x.sortOf(t)
	switch {
	case s == SBool:
		return False
	case s == SReal:
		return RealLit("0.0")
	case s.IsBV():
		return BVLit(0, s.BVWidth())
	}
	return IntLit(0)
}

// ---------------------------------------------------------------------------
// debug names
// ---------------------------------------------------------------------------

func exprText(e ast.Expr) string {
	var b bytes.Buffer
	_ = printer.Fprint(&b, token.NewFileSet(), e)
	return b.String()
}

func (x *Exec) indexDebug(fn *ssa.Function) {
	if x.names == nil {
		x.names = map[string][]ssa.Value{}
		x.valNames = map[ssa.Value]string{}
	}
	for _, p := range fn.Params {
		x.valNames[p] = p.Name()
	}
	for _, fv := range fn.FreeVars {
		x.valNames[fv] = fv.Name()
	}
	for _, b := range fn.Blocks {
		for _, in := range b.Instrs {
			if dr, ok := in.(*ssa.DebugRef); ok {
				txt := exprText(dr.Expr)
				if _, seen := x.valNames[dr.X]; !seen && !dr.IsAddr {
					x.valNames[dr.X] = txt
				}
				if id, ok := dr.Expr.(*ast.Ident); ok && !dr.IsAddr {
					x.names[id.Name] = append(x.names[id.Name], dr.X)
				}
			}
		}
	}
}

func (x *Exec) nameOf(v ssa.Value) string {
	if n, ok := x.valNames[v]; ok {
		return n
	}
	switch vv := v.(type) {
	case *ssa.FieldAddr:
		st := derefType(vv.X.Type())
		if st != nil {
			if s, ok := st.Underlying().(*types.Struct); ok {
				return x.nameOf(vv.X) + "." + s.Field(vv.Field).Name()
			}
		}
	case *ssa.UnOp:
		if vv.Op == token.MUL {
			return x.nameOf(vv.X)
		}
	case *ssa.Parameter:
		return vv.Name()
	case *ssa.Const:
		return vv.Value.String()
	}
	return v.Name()
}

func (x *Exec) posOf(p token.Pos) string {
	if !p.IsValid() {
		return ""
	}
	pos := x.P.Prog.Fset.Position(p)
	return fmt.Sprintf("%s:%d", strings.TrimPrefix(pos.Filename, x.P.RepoDir+"/"), pos.Line)
}

// ---------------------------------------------------------------------------
// obligations
// ---------------------------------------------------------------------------

func (x *Exec) oblige(cfg *Config, kind, detail string, goal Term, props []string, pos token.Pos) *Obligation {
	if goal.S == "true" {
		return nil
	}
	base := fmt.Sprintf("%s/%s(%s)", fullKey(x.fn), kind, detail)
	x.oblNames[base]++
	name := fmt.Sprintf("%s#%d", base, x.oblNames[base])
	o := &Obligation{Name: name, Kind: kind, Func: fullKey(x.fn), Props: props, Assumptions: append([]Term(nil), cfg.st.pc...), Goal: goal, Decls: x.d, Detail: detail, Pos: x.posOf(pos)}
	o.Quantified = strings.Contains(goal.S, "(forall ") || strings.Contains(goal.S, "(exists ")
	x.obls = append(x.obls, o)
	return o
}

func (x *Exec) note(format string, args ...interface{}) {
	s := fmt.Sprintf(format, args...)
	for _, n := range x.notes {
		if n == s {
			return
		}
	}
	x.notes = append(x.notes, s)
}

// ---------------------------------------------------------------------------
// Loop structure
// ---------------------------------------------------------------------------

type loopInfo struct {
	headers map[*ssa.BasicBlock]int                     // header -> ordinal (1-based, source order)
	body    map[*ssa.BasicBlock]map[*ssa.BasicBlock]bool // header -> blocks in loop
}

func computeLoops(fn *ssa.Function) *loopInfo {
	li := &loopInfo{headers: map[*ssa.BasicBlock]int{}, body: map[*ssa.BasicBlock]map[*ssa.BasicBlock]bool{}}
	for _, b := range fn.Blocks {
		for _, s := range b.Succs {
			if s.Dominates(b) {
				// back edge b -> s
				body := li.body[s]
				if body == nil {
					body = map[*ssa.BasicBlock]bool{s: true}
					li.body[s] = body
				}
				// natural loop: all nodes that reach b without passing s
				stack := []*ssa.BasicBlock{b}
				for len(stack) > 0 {
					n := stack[len(stack)-1]
					stack = stack[:len(stack)-1]
					if body[n] {
						continue
					}
					body[n] = true
					stack = append(stack, n.Preds...)
				}
			}
		}
	}
	var hs []*ssa.BasicBlock
	for h := range li.body {
		hs = append(hs, h)
	}
	minPos := func(h *ssa.BasicBlock) token.Pos {
		best := token.Pos(1 << 40)
		for b := range li.body[h] {
			if p := loopPos(b); p < best {
				best = p
			}
		}
		return best
	}
	sort.Slice(hs, func(i, j int) bool {
		pi, pj := minPos(hs[i]), minPos(hs[j])
		if pi != pj {
			return pi < pj
		}
		if len(li.body[hs[i]]) != len(li.body[hs[j]]) {
			return len(li.body[hs[i]]) > len(li.body[hs[j]])
		}
		return hs[i].Index < hs[j].Index
	})
	for i, h := range hs {
		li.headers[h] = i + 1
	}
	return li
}

// loopPos approximates the source position of a loop by the smallest valid
// position of an instruction in its header or body.
func loopPos(h *ssa.BasicBlock) token.Pos {
	best := token.Pos(1 << 40)
	for _, in := range h.Instrs {
		if p := in.Pos(); p.IsValid() && p < best {
			best = p
		}
	}
	if best == token.Pos(1<<40) {
		// fall back to block index ordering
		return token.Pos(1<<40 - 1)
	}
	return best
}

// ghostExplicit: the modifies clause lists ghost state (calls(f), atomics,
// onces, chans): the contract frames it precisely.
func ghostExplicit(c *FuncContract) bool {
	for _, m := range c.Modifies {
		switch e := m.E.(type) {
		case ECall:
			if e.Fn == "calls" {
				return true
			}
		case EIdent:
			if e.Name == "atomics" || e.Name == "onces" || e.Name == "chans" {
				return true
			}
		}
	}
	return false
}
