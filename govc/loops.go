package main

import (
	"fmt"
	"go/types"
	"strings"

	"golang.org/x/tools/go/ssa"
)

// enterLoopHeader is called when control of the top-level frame reaches a
// loop header `to` from block `from`. Returns false when the path ends.
func (x *Exec) enterLoopHeader(cfg *Config, f *Frame, from, to *ssa.BasicBlock, ord int) bool {
	st := cfg.st
	li := x.loops
	if f.depth > 0 {
		li = x.loopsOf(f.fn)
	}
	// pop loops (of this frame) we have left
	for len(cfg.loops) > 0 {
		le := cfg.loops[len(cfg.loops)-1]
		if le.depth < f.depth {
			break
		}
		if le.depth == f.depth && (le.header == to || li.body[le.header][to]) {
			break
		}
		cfg.loops = cfg.loops[:len(cfg.loops)-1]
	}
	var active *loopEntry
	if len(cfg.loops) > 0 && cfg.loops[len(cfg.loops)-1].header == to && cfg.loops[len(cfg.loops)-1].depth == f.depth {
		active = cfg.loops[len(cfg.loops)-1]
	}
	isBack := active != nil && li.body[to][from]
	var spec *LoopSpec
	lname := ""
	if f.depth == 0 {
		if x.c != nil {
			spec = x.c.Loops[ord]
		}
	} else {
		// loop of an inlined function: its invariant is in that function's
		// (inline) contract
		if ic := x.P.ContractFor(f.fn); ic != nil {
			spec = ic.Loops[ord]
		}
		lname = shortFuncName(fullKey(f.fn)) + "."
	}
	loopEnv := func() *SpecEnv {
		if f.depth == 0 {
			env := x.entryEnv(cfg)
			env.frame = f
			env.old = cfg.old
			return env
		}
		ic := x.P.ContractFor(f.fn)
		env := &SpecEnv{x: x, cfg: cfg, st: cfg.st, old: cfg.old, vars: map[string]SpecVal{}, frame: f, fn: f.fn, pkg: x.pkgOf(ic.Pkg), cf: x.P.Contracts[ic.Pkg]}
		for _, p := range f.fn.Params {
			env.vars[p.Name()] = x.valToSpec(cfg.st, f.regs[p], p.Type())
		}
		for _, fv := range f.fn.FreeVars {
			env.vars["&"+fv.Name()] = x.valToSpec(cfg.st, f.regs[fv], fv.Type())
		}
		return env
	}
	// phi values along this edge
	var phis []*ssa.Phi
	for _, in := range to.Instrs {
		if p, ok := in.(*ssa.Phi); ok {
			phis = append(phis, p)
		} else {
			break
		}
	}
	edgeVals := map[*ssa.Phi]Val{}
	for _, p := range phis {
		for k, pred := range to.Preds {
			if pred == from {
				edgeVals[p] = x.get(f, p.Edges[k])
			}
		}
		if edgeVals[p] == nil {
			unsupported("loop header phi without edge value")
		}
	}
	evalInv := func(kind string) {
		if spec == nil {
			return
		}
		// temporarily bind phis to the edge values and position at the header
		saved := map[*ssa.Phi]Val{}
		for _, p := range phis {
			if v, ok := f.regs[p]; ok {
				saved[p] = v
			}
			f.regs[p] = edgeVals[p]
		}
		sb, sp, si := f.block, f.prev, f.idx
		f.block = to
		env := loopEnv()
		for _, inv := range spec.Invariants {
			x.obligeParts(cfg, env, fmt.Sprintf("%sloop%d-inv-%s", lname, ord, kind), x.clauseLabel(inv), inv.E, x.clauseProps(inv, nil), to.Instrs[0].Pos())
		}
		if kind == "preserved" && spec.Decreases != nil && active.hasDec {
			d := x.specTerm(env, spec.Decreases.E)
			z := x.intLit(0, d.Sort)
			x.oblige(cfg, fmt.Sprintf("%sloop%d-decreases", lname, ord), spec.Decreases.Text, And(Le(z, active.decInit), Lt(d, active.decInit)), x.clauseProps(spec.Decreases, nil), to.Instrs[0].Pos())
		}
		f.block, f.prev, f.idx = sb, sp, si
		for _, p := range phis {
			if v, ok := saved[p]; ok {
				f.regs[p] = v
			} else {
				delete(f.regs, p)
			}
		}
	}
	if isBack {
		evalInv("preserved")
		if active.ghost != nil {
			x.loopGhostFrame(cfg, active, ord, to)
		}
		return false
	}
	// entry edge
	if spec != nil && len(spec.EntryAssume) > 0 {
		saved := map[*ssa.Phi]Val{}
		for _, p := range phis {
			if v, ok := f.regs[p]; ok {
				saved[p] = v
			}
			f.regs[p] = edgeVals[p]
		}
		sb := f.block
		f.block = to
		env := loopEnv()
		for _, a := range spec.EntryAssume {
			st.assume(x.specBool(env, a.E))
			x.usedTrusted["ASSUMED (not proved) in "+fullKey(x.fn)+": "+a.Text] = true
		}
		f.block = sb
		for _, p := range phis {
			if v, ok := saved[p]; ok {
				f.regs[p] = v
			} else {
				delete(f.regs, p)
			}
		}
	}
	evalInv("entry")
	if spec == nil {
		x.note("loop %d of %s has no invariant (abstracted with true)", ord, fullKey(f.fn))
	}
	// havoc loop-modified state
	mods, all := x.loopModSet(li, to)
	lockHavoc := false
	if mods["$locks"] {
		delete(mods, "$locks")
		// cond.Wait / Lock in the body: if the only mutexes involved are the
		// ones already held here (cond.Wait requires its mutex to be held),
		// havoc exactly what their invariants protect; a Lock of another
		// mutex inside the body falls back to whole arrays.
		if len(cfg.heldLocks) > 0 && !x.bodyLocks(li, to) {
			lockHavoc = true
		} else {
			x.lockMods(mods)
		}
	}
	if spec != nil {
		for _, m := range spec.Modifies {
			mods[m] = true
		}
	}
	if all {
		for _, name := range sortedKeys(st.heap) {
			if strings.HasPrefix(name, "$held") || name == "$top" {
				continue
			}
			st.heap[name] = x.d.Fresh(fmt.Sprintf("L%d!%s", ord, name), st.heap[name].Sort)
		}
		x.havocGhostState(st)
		x.note("loop %d of %s havocs the whole heap", ord, fullKey(x.fn))
	} else {
		for _, name := range sortedKeys(st.heap) {
			if name == "$top" || isGhostStateArr(name) {
				continue // $top only ever grows (below); ghost state: havocGhostInLoop
			}
			if mods[name] || mods[strings.SplitN(name, "!len", 2)[0]] || mods[strings.SplitN(name, "!at", 2)[0]] {
				prev := st.heap[name]
				st.heap[name] = x.d.Fresh(fmt.Sprintf("L%d!%s", ord, name), st.heap[name].Sort)
				x.loopFrame(st, name, prev)
			}
		}
		// arrays not yet materialised but modified in the loop must not
		// collapse to the entry version later: materialise them now
		for name := range mods {
			_ = name
		}
		x.pendingHavoc(st, mods, ord)
		if mods["$calls"] && !x.silentGhost() {
			// ghost call / once / atomic / channel state, including arrays
			// not materialised yet
			x.havocGhostInLoop(st)
		}
	}
	if lockHavoc {
		for _, h := range cfg.heldLocks {
			x.havocLock(cfg, h.ld, h.o)
		}
		x.interfere(cfg)
	}
	if mods["$top"] || all {
		ntop := x.d.Fresh("top", SInt)
		st.assume(Ge(ntop, x.top(st)))
		st.heap["$top"] = ntop
	}
	for _, p := range phis {
		v := x.symbolicOf(st, x.d.FreshName(fmt.Sprintf("L%d!%s", ord, sanitize(p.Comment))), p.Type())
		f.regs[p] = v
	}
	if x.c != nil && x.c.Options["old"] == "section" {
		// the section-start snapshot is loop-carried state too
		cfg.old = cfg.st.clone()
		for _, name := range sortedKeys(cfg.old.heap) {
			if strings.HasPrefix(name, "$") {
				continue
			}
			if all || mods[name] || mods[strings.SplitN(name, "!len", 2)[0]] || mods[strings.SplitN(name, "!at", 2)[0]] {
				prevOld := cfg.old.heap[name]
				cfg.old.heap[name] = x.d.Fresh(fmt.Sprintf("L%dold!%s", ord, name), cfg.old.heap[name].Sort)
				if !all {
					// the snapshot, too, agrees with the pre-loop snapshot outside the frame
					x.loopFrameTerm(cfg.st, name, cfg.old.heap[name], prevOld)
				}
			}
		}
		if lockHavoc {
			tmp := &Config{st: cfg.old, old: cfg.old, frames: cfg.frames}
			for _, h := range cfg.heldLocks {
				x.havocLock(tmp, h.ld, h.o)
			}
		}
	}
	le := &loopEntry{header: to, depth: f.depth}
	if x.silentGhost() {
		// the contract promises not to change ghost call/once/atomic/channel
		// state: it is kept across the loop head, and every iteration has to
		// leave it as it found it (checked at the back edge)
		le.ghost = map[string]Term{}
		for name, t := range st.heap {
			if isGhostStateArr(name) {
				le.ghost[name] = t
			}
		}
		le.gepoch = st.gepoch
	}
	cfg.loops = append(cfg.loops, le)
	f.prev = from
	f.block = to
	f.idx = len(phis)
	if spec != nil {
		env := loopEnv()
		for _, inv := range spec.Invariants {
			st.assume(x.specBool(env, inv.E))
		}
		if spec.Decreases != nil {
			le.decInit = x.specTerm(env, spec.Decreases.E)
			le.hasDec = true
		}
		x.canary(cfg, fmt.Sprintf("%sloop%d-invariant-satisfiable", lname, ord), to.Instrs[0].Pos())
	}
	return true
}

// loopFrame: every write in a loop body is checked against the modifies
// clause (store-in-frame / call-in-frame), so after the havoc the array still
// agrees with its pre-loop value on pre-existing objects outside that clause.
func (x *Exec) loopFrame(st *State, name string, prev Term) {
	x.loopFrameTerm(st, name, st.heap[name], prev)
}

func (x *Exec) loopFrameTerm(st *State, name string, cur, prev Term) {
	if !x.frameReady || x.frameWhole[name] || strings.HasPrefix(name, "$") || !prev.Sort.IsArr() || prev.Sort.IndexSort() != SInt {
		return
	}
	if x.c != nil && x.c.Options["noframe"] == "true" {
		return
	}
	o := Term{"o!lf", SInt}
	conds := []Term{x.preexisting(o)}
	for _, l := range x.frameLocs[name] {
		conds = append(conds, Neq(o, l))
	}
	st.assume(Forall([]Term{o}, Implies(And(conds...), Eq(Select(cur, o), Select(prev, o))), []Term{Select(cur, o)}))
}

// pendingHavoc records arrays that the loop modifies but that have not been
// touched on this path yet: their first use after the loop must not be the
// entry version.
func (x *Exec) pendingHavoc(st *State, mods map[string]bool, ord int) {
	for name := range mods {
		if strings.HasPrefix(name, "$") {
			continue
		}
		if _, ok := st.heap[name]; ok {
			continue
		}
		if srt, ok := x.arrSorts[name]; ok {
			st.heap[name] = x.d.Fresh(fmt.Sprintf("L%d!%s", ord, name), srt)
		} else {
			x.note("loop %d: modified array %s of unknown sort not havocked", ord, name)
			x.abstract = true
		}
	}
}

// loopModSet statically over-approximates the heap arrays a loop may write.
func (x *Exec) loopModSet(li *loopInfo, h *ssa.BasicBlock) (map[string]bool, bool) {
	mods := map[string]bool{}
	all := false
	seen := map[*ssa.Function]bool{}
	var scanFn func(fn *ssa.Function)
	var scanInstr func(in ssa.Instruction)
	scanInstr = func(in ssa.Instruction) {
		switch i := in.(type) {
		case *ssa.Store:
			x.storeTargets(i.Addr, i.Val.Type(), mods)
		case *ssa.MapUpdate:
			m := i.Map.Type().Underlying().(*types.Map)
			d, v, c := x.mapNames(m)
			mods[d], mods[v], mods[c] = true, true, true
		case *ssa.Next:
			if r, ok := i.Iter.(*ssa.Range); ok {
				mods[miName(r, "vis")], mods[miName(r, "cnt")] = true, true
			}
		case *ssa.Select:
			x.ghostCallMods(mods)
		case *ssa.Alloc, *ssa.MakeSlice, *ssa.MakeMap, *ssa.MakeChan, *ssa.MakeInterface:
			mods["$top"] = true
			if a, ok := i.(*ssa.Alloc); ok {
				el := derefType(a.Type())
				x.allocTargets(el, mods)
			}
			if ms, ok := i.(*ssa.MakeSlice); ok {
				el := ms.Type().Underlying().(*types.Slice).Elem()
				x.regArr(x.elemsArr(el), SArr(SInt, SArr(x.idxSort(), x.sortOf(el))))
				mods[x.elemsArr(el)] = true
			}
		case ssa.CallInstruction:
			common := i.Common()
			mods["$top"] = true
			if common.IsInvoke() {
				if c := x.ifaceContract(common.Value.Type(), common.Method.Name()); c != nil {
					x.contractMods(c, nil, mods)
					if contractTouchesGhostState(c) {
						x.ghostCallMods(mods)
					}
					return
				}
				// unknown dynamic call: may run module code of unknown type
				if _, ok := models["iface:"+ifaceKey(common.Value.Type(), common.Method.Name())]; ok {
					x.modelMods(mods)
					return
				}
				return // interface method of unknown type: no function value is called
			}
			if b, ok := common.Value.(*ssa.Builtin); ok {
				switch b.Name() {
				case "close":
					x.ghostCallMods(mods)
				case "append":
					if sl, ok := common.Args[0].Type().Underlying().(*types.Slice); ok {
						x.regArr(x.elemsArr(sl.Elem()), SArr(SInt, SArr(x.idxSort(), x.sortOf(sl.Elem()))))
						mods[x.elemsArr(sl.Elem())] = true
					}
				case "delete":
					m := common.Args[0].Type().Underlying().(*types.Map)
					d, _, c := x.mapNames(m)
					mods[d], mods[c] = true, true
				case "copy":
					all = true
				}
				return
			}
			var callee *ssa.Function
			if fn := common.StaticCallee(); fn != nil {
				callee = fn
			} else if mc, ok := common.Value.(*ssa.MakeClosure); ok {
				callee = mc.Fn.(*ssa.Function)
			}
			if callee == nil {
				if x.pureRoleName(common.Value.Type()) == "" {
					x.ghostCallMods(mods)
				}
				return // unknown function value: assumed not to touch module state
			}
			if _, ok := models[ssaFullName(callee)]; ok {
				n := ssaFullName(callee)
				if strings.Contains(n, "Lock") || strings.Contains(n, "Wait") || strings.Contains(n, "Cond") {
					x.modelMods(mods)
				} else {
					mods["$top"] = true
				}
				if strings.Contains(n, "sync.Once") || strings.Contains(n, "atomic") || strings.Contains(n, "Lock") {
					x.ghostCallMods(mods)
				}
				return
			}
			body := callee
			if len(body.Blocks) == 0 && callee.Origin() != nil {
				body = callee.Origin()
			}
			if c := x.P.ContractFor(body); c != nil && !c.Inline {
				x.contractMods(c, body, mods)
				if contractTouchesGhostState(c) {
					x.ghostCallMods(mods)
				}
				return
			}
			if len(body.Blocks) > 0 && inModuleOrInlinable(body) {
				scanFn(body)
			}
		}
	}
	scanFn = func(fn *ssa.Function) {
		if seen[fn] {
			return
		}
		seen[fn] = true
		for _, b := range fn.Blocks {
			for _, in := range b.Instrs {
				scanInstr(in)
			}
		}
	}
	for b := range li.body[h] {
		for _, in := range b.Instrs {
			scanInstr(in)
		}
	}
	return mods, all
}

// bodyLocks: does the loop body acquire a mutex directly (Lock call)?
func (x *Exec) bodyLocks(li *loopInfo, h *ssa.BasicBlock) bool {
	for b := range li.body[h] {
		for _, in := range b.Instrs {
			ci, ok := in.(ssa.CallInstruction)
			if !ok {
				continue
			}
			common := ci.Common()
			name := ""
			if common.IsInvoke() {
				name = "iface:" + ifaceKey(common.Value.Type(), common.Method.Name())
			} else if fn := common.StaticCallee(); fn != nil {
				name = ssaFullName(fn)
				if name == "github.com/tychoish/fun/adt.Lock" {
					return true
				}
			}
			if strings.HasSuffix(name, ".Lock") || strings.HasSuffix(name, ".RLock") {
				return true
			}
		}
	}
	return false
}

func (x *Exec) modelMods(mods map[string]bool) {
	mods["$held"] = true
	mods["$rheld"] = true
	mods["$epoch"] = true
	mods["$top"] = true
	// Lock / cond.Wait let other goroutines run: everything any lock
	// invariant declares as havocked may change
	mods["$locks"] = true
}

// lockMods adds (whole-array) everything any lock invariant havocs.
func (x *Exec) lockMods(mods map[string]bool) {
	for _, ld := range x.P.lockDecls() {
		c := &FuncContract{Pkg: ld.pkg, Key: "lockhavoc " + ld.strct + "." + ld.field}
		for _, h := range ld.havoc {
			x.modEntryArrays(c, nil, x.retypeRecv(ld, h), mods)
		}
	}
}

// retypeRecv rewrites the receiver name of a lock declaration into a typed
// expression so that modifies entries resolve without a state.
func (x *Exec) retypeRecv(ld *lockDecl, e Expr) Expr {
	switch ee := e.(type) {
	case EIdent:
		if ee.Name == ld.recv {
			return ECall{Fn: "cast", Args: []Expr{ee, EStr{"*" + ld.strct}}}
		}
	case EField:
		return EField{X: x.retypeRecv(ld, ee.X), Name: ee.Name}
	case ECall:
		var as []Expr
		for _, a := range ee.Args {
			as = append(as, x.retypeRecv(ld, a))
		}
		return ECall{Fn: ee.Fn, Args: as}
	}
	return e
}

func (x *Exec) regArr(name string, s Sort) {
	if x.arrSorts == nil {
		x.arrSorts = map[string]Sort{}
	}
	x.arrSorts[name] = s
}

func (x *Exec) allocTargets(el types.Type, mods map[string]bool) {
	if isStructType(el) {
		s := el.Underlying().(*types.Struct)
		for k := 0; k < s.NumFields(); k++ {
			ft := s.Field(k).Type()
			if isStructType(ft) {
				x.allocTargets(ft, mods)
				continue
			}
			if _, isArr := ft.Underlying().(*types.Array); isArr {
				continue
			}
			name, _ := x.fieldArrName(el, k)
			x.regArr(name, SArr(SInt, x.sortOf(ft)))
			mods[name] = true
		}
		return
	}
	if at, ok := el.Underlying().(*types.Array); ok {
		x.regArr(x.elemsArr(at.Elem()), SArr(SInt, SArr(x.idxSort(), x.sortOf(at.Elem()))))
		mods[x.elemsArr(at.Elem())] = true
		return
	}
	x.regArr(x.cellArr(el), SArr(SInt, x.sortOf(el)))
	mods[x.cellArr(el)] = true
}

func (x *Exec) storeTargets(addr ssa.Value, vt types.Type, mods map[string]bool) {
	if isStructType(vt) {
		x.allocTargets(vt, mods)
		return
	}
	switch a := addr.(type) {
	case *ssa.FieldAddr:
		styp := derefType(a.X.Type())
		name, _ := x.fieldArrName(styp, a.Field)
		x.regArr(name, SArr(SInt, x.sortOf(vt)))
		mods[name] = true
	case *ssa.IndexAddr:
		x.regArr(x.elemsArr(vt), SArr(SInt, SArr(x.idxSort(), x.sortOf(vt))))
		mods[x.elemsArr(vt)] = true
	case *ssa.Global:
	default:
		x.regArr(x.cellArr(vt), SArr(SInt, x.sortOf(vt)))
		mods[x.cellArr(vt)] = true
	}
}

// contractMods adds the arrays named by a contract's modifies clause.
func (x *Exec) contractMods(c *FuncContract, fn *ssa.Function, mods map[string]bool) {
	mods["$top"] = true
	for _, m := range c.Modifies {
		x.modEntryArrays(c, fn, m.E, mods)
	}
}

func (x *Exec) modEntryArrays(c *FuncContract, fn *ssa.Function, e Expr, mods map[string]bool) {
	env := &SpecEnv{x: x, vars: map[string]SpecVal{}, pkg: x.pkgOf(c.Pkg), cf: x.P.Contracts[c.Pkg]}
	switch ee := e.(type) {
	case EField:
		// determine the struct type of ee.X statically
		ty := x.staticTypeOf(env, c, fn, ee.X)
		if ty == nil {
			x.note("cannot resolve modifies entry %s of %s statically", e.exprString(), c.Key)
			x.abstract = true
			return
		}
		if el := derefType(ty); el != nil {
			ty = el
		}
		for _, t := range x.safeModField(env, ty, ee.Name) {
			x.regArr(t.arr, t.sort)
			mods[t.arr] = true
		}
	case ECall:
		if ms, _, ok := x.findModset(ee.Fn); ok {
			// modset entries are written over casts / type names, so they
			// resolve statically without the actual arguments
			for _, m := range ms {
				x.modEntryArrays(c, fn, m, mods)
			}
			return
		}
		if ee.Fn == "elems" {
			ty := x.staticTypeOf(env, c, fn, ee.Args[0])
			if ty != nil {
				if sl, ok := ty.Underlying().(*types.Slice); ok {
					x.regArr(x.elemsArr(sl.Elem()), SArr(SInt, SArr(x.idxSort(), x.sortOf(sl.Elem()))))
					mods[x.elemsArr(sl.Elem())] = true
					return
				}
			}
			x.note("cannot resolve modifies entry %s of %s statically", e.exprString(), c.Key)
			x.abstract = true
		}
		if ee.Fn == "mapelems" {
			ty := x.staticTypeOf(env, c, fn, ee.Args[0])
			if ty != nil {
				if m, ok := ty.Underlying().(*types.Map); ok {
					d, v, cd := x.mapNames(m)
					ks, vs := x.sortOf(m.Key()), x.sortOf(m.Elem())
					x.regArr(d, SArr(SInt, SArr(ks, SBool)))
					x.regArr(v, SArr(SInt, SArr(ks, vs)))
					x.regArr(cd, SArr(SInt, x.idxSort()))
					mods[d], mods[v], mods[cd] = true, true, true
					return
				}
			}
			x.note("cannot resolve modifies entry %s of %s statically", e.exprString(), c.Key)
			x.abstract = true
		}
		if ee.Fn == "cell" && fn != nil {
			id := ee.Args[0].(EIdent)
			for _, fv := range fn.FreeVars {
				if fv.Name() == id.Name {
					el := derefType(fv.Type())
					x.regArr(x.cellArr(el), SArr(SInt, x.sortOf(el)))
					mods[x.cellArr(el)] = true
				}
			}
		}
	}
}

func (x *Exec) safeModField(env *SpecEnv, ty types.Type, field string) (out []modTarget) {
	defer func() {
		if r := recover(); r != nil {
			if _, ok := r.(unsupportedErr); ok {
				out = nil
				return
			}
			panic(r)
		}
	}()
	return x.modFieldOfType(env, ty, field, nil)
}

// staticTypeOf types a modifies base expression without a state.
func (x *Exec) staticTypeOf(env *SpecEnv, c *FuncContract, fn *ssa.Function, e Expr) types.Type {
	switch ee := e.(type) {
	case EIdent:
		if fn != nil {
			for _, p := range fn.Params {
				if p.Name() == ee.Name {
					return p.Type()
				}
			}
			for _, fv := range fn.FreeVars {
				if fv.Name() == ee.Name {
					return derefType(fv.Type())
				}
			}
		}
		if ty := x.resolveTypeText(env, ee.Name); ty != nil {
			return ty
		}
	case EField:
		bt := x.staticTypeOf(env, c, fn, ee.X)
		if bt == nil {
			return nil
		}
		if el := derefType(bt); el != nil {
			bt = el
		}
		if s, ok := bt.Underlying().(*types.Struct); ok {
			for i := 0; i < s.NumFields(); i++ {
				if s.Field(i).Name() == ee.Name {
					return s.Field(i).Type()
				}
			}
		}
	case ECall:
		if ee.Fn == "cast" {
			return x.resolveTypeText(env, ee.Args[1].(EStr).V)
		}
	}
	return nil
}

func shortFuncName(key string) string {
	if i := strings.LastIndex(key, "."); i >= 0 {
		return key[i+1:]
	}
	return key
}

// ghostCallMods: the ghost arrays that calls inside a loop body may change
// (call counters and histories, once / atomic / channel state).
func (x *Exec) ghostCallMods(mods map[string]bool) {
	mods["$calls"] = true // flag: handled by havocGhostInLoop
}

func isGhostCallArr(name string) bool {
	switch name {
	case "$oncedone", "$atomic", "$atomicb", "$closed", "$recvready":
		return true
	}
	return false
}

// havocGhostInLoop forgets the ghost call/once/atomic/channel state at a loop
// head. If the function's modifies clause frames that state explicitly
// (calls(f), atomics, ...), entries outside the frame keep their pre-loop
// values - every call in the body is checked against the frame.
func (x *Exec) havocGhostInLoop(st *State) {
	if x.c == nil || !ghostExplicit(x.c) || !x.frameReady {
		x.havocGhostState(st)
		return
	}
	// explicit ghost frame: only the framed arrays change, and only at the
	// framed entries (calls of other function values inside the loop are
	// rejected by call-in-frame obligations)
	o := Term{"o!gf", SInt}
	for _, name := range sortedKeys(x.frameSorts) {
		if !isGhostStateArr(name) {
			continue
		}
		prev := x.heapGet(st, name, x.frameSorts[name])
		x.d.fresh["gloop"]++
		cur := x.d.Const(fmt.Sprintf("GL%d!%s", x.d.fresh["gloop"], name), prev.Sort)
		st.heap[name] = cur
		if x.frameWhole[name] {
			continue
		}
		var conds []Term
		for _, l := range x.frameLocs[name] {
			conds = append(conds, Neq(o, l))
		}
		st.assume(Forall([]Term{o}, Implies(And(conds...), Eq(Select(cur, o), Select(prev, o))), []Term{Select(cur, o)}))
	}
}

// silentGhost: the contract of the function under verification neither
// mentions nor frames ghost call/once/atomic/channel state.
func (x *Exec) silentGhost() bool {
	return x.c != nil && !contractTouchesGhostState(x.c) && !ghostExplicit(x.c)
}

// loopGhostFrame: at a back edge of a function whose contract is silent about
// ghost state, the iteration must have left that state unchanged (for objects
// that existed at function entry; call histories: entirely).
func (x *Exec) loopGhostFrame(cfg *Config, le *loopEntry, ord int, h *ssa.BasicBlock) {
	st := cfg.st
	if st.gepoch != le.gepoch {
		x.oblige(cfg, fmt.Sprintf("loop%d-ghost-frame", ord), "ghost call/once/atomic/channel state was forgotten wholesale inside the loop (the contract is silent about it)", False, nil, h.Instrs[0].Pos())
		return
	}
	var eqs []Term
	for _, name := range sortedKeys(st.heap) {
		if !isGhostStateArr(name) {
			continue
		}
		cur := st.heap[name]
		old, had := le.ghost[name]
		if !had {
			old = x.d.Const("H0!"+name, cur.Sort)
			if le.gepoch > 0 {
				old = x.d.Const(fmt.Sprintf("G%d!%s", le.gepoch, name), cur.Sort)
			}
		}
		if cur.S == old.S {
			continue
		}
		if strings.HasPrefix(name, "$calls!") || strings.HasPrefix(name, "$callret!") {
			eqs = append(eqs, Eq(cur, old))
		} else {
			o := Term{"o!gl", SInt}
			eqs = append(eqs, Forall([]Term{o}, Implies(x.preexisting(o), Eq(Select(cur, o), Select(old, o)))))
		}
	}
	if len(eqs) > 0 {
		x.oblige(cfg, fmt.Sprintf("loop%d-ghost-frame", ord), "the iteration leaves ghost call/once/atomic/channel state unchanged (the contract is silent about it)", And(eqs...), nil, h.Instrs[0].Pos())
	}
}

// resnapLoopGhost: a new section starts (interference by other goroutines has
// just been applied): the ghost snapshots of the active loops restart too.
func (x *Exec) resnapLoopGhost(cfg *Config) {
	for i, old := range cfg.loops {
		if old.ghost == nil {
			continue
		}
		le := *old // entries are shared between forked paths: copy on write
		cfg.loops[i] = &le
		le.ghost = map[string]Term{}
		for name, t := range cfg.st.heap {
			if isGhostStateArr(name) {
				le.ghost[name] = t
			}
		}
		le.gepoch = cfg.st.gepoch
	}
}
