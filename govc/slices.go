package main

import (
	"fmt"
	"go/token"
	"go/types"

	"golang.org/x/tools/go/ssa"
)

// Slices are Int-sorted header ids with projection functions. A header is an
// immutable value; the backing array lives in elems!<T>.

func (x *Exec) slBase(s Term) Term { return x.d.Fun("sl.base", []Sort{SInt}, SInt)(s) }
func (x *Exec) slOff(s Term) Term  { return x.d.Fun("sl.off", []Sort{SInt}, x.idxSort())(s) }
func (x *Exec) slLen(s Term) Term  { return x.d.Fun("sl.len", []Sort{SInt}, x.idxSort())(s) }
func (x *Exec) slCap(s Term) Term  { return x.d.Fun("sl.cap", []Sort{SInt}, x.idxSort())(s) }

func (x *Exec) elemsArr(el types.Type) string {
	return "elems!" + typeName(el) + "!" + string(x.sortOf(el))
}

func (x *Exec) assumeSliceWF(st *State, s Term) {
	z := x.intLit(0, x.idxSort())
	st.assume(And(Le(z, x.slLen(s)), Le(x.slLen(s), x.slCap(s)), Le(z, x.slOff(s)), Le(x.slBase(s), x.top(st)), Ge(x.slBase(s), IntLit(0))))
	// the nil slice
	st.assume(Implies(Eq(s, IntLit(0)), And(Eq(x.slLen(s), z), Eq(x.slCap(s), z), Eq(x.slBase(s), IntLit(0)))))
	if x.mode == "bv" {
		// lengths are bounded by the address space
		st.assume(Lt(x.slCap(s), BVLit(1<<48, 64)))
		st.assume(Lt(x.slOff(s), BVLit(1<<48, 64)))
	}
}

func (x *Exec) newSliceHeader(st *State, base, off, ln, cp Term) Term {
	s := x.d.Fresh("slice", SInt)
	st.assume(And(Eq(x.slBase(s), base), Eq(x.slOff(s), off), Eq(x.slLen(s), ln), Eq(x.slCap(s), cp), Neq(s, IntLit(0))))
	return s
}

// sliceElem reads s[i] in specifications through a "row view" of the slice so
// that quantifier triggers contain the index variable itself (not off+i,
// which arithmetic normalisation would hide from E-matching).
func (x *Exec) sliceElem(st *State, s, i Term, el types.Type) Term {
	asort := SArr(SInt, SArr(x.idxSort(), x.sortOf(el)))
	arr := x.heapGet(st, x.elemsArr(el), asort)
	rowSort := SArr(x.idxSort(), x.sortOf(el))
	// the view is a function of the backing row and the offset (not of the
	// whole heap array), so that a write to another backing array leaves the
	// very same view term (modulo congruence) and quantified facts about the
	// slice keep matching
	name := "slrow!" + typeName(el) + "!" + string(x.sortOf(el))
	row := x.d.Fun(name, []Sort{rowSort, x.idxSort()}, rowSort)
	r, o, k := Term{"r!r", rowSort}, Term{"o!r", x.idxSort()}, Term{"k!r", x.idxSort()}
	x.d.Axiom(Forall([]Term{r, o, k}, Eq(Select(row(r, o), k), Select(r, Add(o, k))), []Term{Select(row(r, o), k)}))
	// read over write through the view: names the view of the row before the
	// write, so that quantified facts about it (loop invariants) are matched
	iv, vv := Term{"i!r", x.idxSort()}, Term{"v!r", x.sortOf(el)}
	x.d.Axiom(Forall([]Term{r, o, k, iv, vv}, Eq(Select(row(Store(r, iv, vv), o), k), Ite(Eq(Add(o, k), iv), vv, Select(row(r, o), k))), []Term{Select(row(Store(r, iv, vv), o), k)}))
	return Select(row(Select(arr, x.slBase(s)), x.slOff(s)), i)
}

func (x *Exec) boundsCheck(cfg *Config, i, n Term, what string, pos token.Pos) {
	z := x.intLit(0, i.Sort)
	goal := And(Le(z, i), Lt(i, n))
	x.oblige(cfg, "index-bounds", what, goal, nil, pos)
	cfg.st.assume(goal)
}

func (x *Exec) idxTerm(v Val, t types.Type) Term {
	i := x.tv(v)
	if x.mode == "bv" && i.Sort.BVWidth() < 64 {
		w := i.Sort.BVWidth()
		if isUnsigned(t) {
			return mk(SBV(64), "(_ zero_extend "+itoa(64-w)+")", i)
		}
		return mk(SBV(64), "(_ sign_extend "+itoa(64-w)+")", i)
	}
	return i
}

func itoa(n int) string {
	s := ""
	if n == 0 {
		return "0"
	}
	for n > 0 {
		s = string(rune('0'+n%10)) + s
		n /= 10
	}
	return s
}

func (x *Exec) indexAddr(cfg *Config, f *Frame, i *ssa.IndexAddr) Val {
	xt := i.X.Type()
	switch u := xt.Underlying().(type) {
	case *types.Slice:
		s := x.tv(x.get(f, i.X))
		idx := x.idxTerm(x.get(f, i.Index), i.Index.Type())
		x.boundsCheck(cfg, idx, x.slLen(s), x.nameOf(i.X)+"["+x.nameOf(i.Index)+"]", i.Pos())
		el := u.Elem()
		if isStructType(el) {
			unsupported("slice of structs")
		}
		return AddrV{Kind: aElem, Arr: x.elemsArr(el), Base: x.slBase(s), Idx: Add(x.slOff(s), idx), Elem: el, Slice: s, SIdx: idx}
	}
	if el := derefType(xt); el != nil {
		if at, ok := el.Underlying().(*types.Array); ok {
			base := x.tv(x.get(f, i.X))
			idx := x.idxTerm(x.get(f, i.Index), i.Index.Type())
			x.boundsCheck(cfg, idx, x.intLit(at.Len(), x.idxSort()), x.nameOf(i.X)+"["+x.nameOf(i.Index)+"]", i.Pos())
			if isStructType(at.Elem()) {
				unsupported("array of structs")
			}
			return AddrV{Kind: aElem, Arr: x.elemsArr(at.Elem()), Base: base, Idx: idx, Elem: at.Elem()}
		}
	}
	unsupported("IndexAddr on %s", xt)
	return nil
}

func (x *Exec) indexVal(cfg *Config, f *Frame, i *ssa.Index) Val {
	unsupported("Index on %s", i.X.Type())
	return nil
}

func (x *Exec) sliceOp(cfg *Config, f *Frame, i *ssa.Slice) Val {
	st := cfg.st
	switch u := i.X.Type().Underlying().(type) {
	case *types.Slice:
		s := x.tv(x.get(f, i.X))
		z := x.intLit(0, x.idxSort())
		lo := z
		hi := x.slLen(s)
		mx := x.slCap(s)
		if i.Low != nil {
			lo = x.idxTerm(x.get(f, i.Low), i.Low.Type())
		}
		if i.High != nil {
			hi = x.idxTerm(x.get(f, i.High), i.High.Type())
		}
		if i.Max != nil {
			mx = x.idxTerm(x.get(f, i.Max), i.Max.Type())
		}
		goal := And(Le(z, lo), Le(lo, hi), Le(hi, mx), Le(mx, x.slCap(s)))
		x.oblige(cfg, "slice-bounds", x.nameOf(i.X), goal, nil, i.Pos())
		st.assume(goal)
		_ = u
		return TV{T: x.newSliceHeader(st, x.slBase(s), Add(x.slOff(s), lo), Sub(hi, lo), Sub(mx, lo))}
	case *types.Pointer:
		at, ok := u.Elem().Underlying().(*types.Array)
		if !ok {
			unsupported("Slice on %s", i.X.Type())
		}
		base := x.tv(x.get(f, i.X))
		z := x.intLit(0, x.idxSort())
		n := x.intLit(at.Len(), x.idxSort())
		lo, hi := z, n
		if i.Low != nil {
			lo = x.idxTerm(x.get(f, i.Low), i.Low.Type())
		}
		if i.High != nil {
			hi = x.idxTerm(x.get(f, i.High), i.High.Type())
		}
		goal := And(Le(z, lo), Le(lo, hi), Le(hi, n))
		x.oblige(cfg, "slice-bounds", x.nameOf(i.X), goal, nil, i.Pos())
		st.assume(goal)
		hdr := x.newSliceHeader(st, base, lo, Sub(hi, lo), Sub(n, lo))
		if at.Len() <= 8 && !isStructType(at.Elem()) {
			// a small array turned into a slice (variadic arguments): name the
			// elements through the slice view, so that quantified facts about
			// the slice's elements have ground terms to match
			arr := x.heapGet(st, x.elemsArr(at.Elem()), SArr(SInt, SArr(x.idxSort(), x.sortOf(at.Elem()))))
			for k := int64(0); k < at.Len(); k++ {
				kt := x.intLit(k, x.idxSort())
				st.assume(Eq(x.sliceElem(st, hdr, kt, at.Elem()), Select(Select(arr, base), Add(lo, kt))))
			}
		}
		return TV{T: hdr}
	case *types.Basic:
		// string slicing: opaque
		r := x.d.Fresh("substr", SInt)
		return TV{T: r}
	}
	unsupported("Slice on %s", i.X.Type())
	return nil
}

func (x *Exec) makeSlice(cfg *Config, f *Frame, i *ssa.MakeSlice) Val {
	st := cfg.st
	el := i.Type().Underlying().(*types.Slice).Elem()
	if isStructType(el) {
		unsupported("make slice of structs")
	}
	ln := x.idxTerm(x.get(f, i.Len), i.Len.Type())
	cp := x.idxTerm(x.get(f, i.Cap), i.Cap.Type())
	z := x.intLit(0, x.idxSort())
	goal := And(Le(z, ln), Le(ln, cp))
	x.oblige(cfg, "makeslice-len", x.nameOf(i.Len), goal, nil, i.Pos())
	st.assume(goal)
	base := x.alloc(st, "backing")
	name := x.elemsArr(el)
	arr := x.heapGet(st, name, SArr(SInt, SArr(x.idxSort(), x.sortOf(el))))
	zeroRow := x.d.Fresh("zerorow", SArr(x.idxSort(), x.sortOf(el)))
	k := Term{"k", x.idxSort()}
	st.assume(Forall([]Term{k}, Eq(Select(zeroRow, k), x.zeroTerm(el)), []Term{Select(zeroRow, k)}))
	st.heap[name] = Store(arr, base, zeroRow)
	return TV{T: x.newSliceHeader(st, base, z, ln, cp)}
}

// appendOp models append(s, t...): the result has the old elements followed
// by the new ones; whether it aliases the old backing array is left open only
// when capacity suffices (then it does), otherwise it is fresh.
func (x *Exec) appendOp(cfg *Config, args []Val, sig *types.Signature, pos token.Pos) Val {
	st := cfg.st
	slt, ok := sig.Params().At(0).Type().Underlying().(*types.Slice)
	if !ok {
		unsupported("append on %s", sig.Params().At(0).Type())
	}
	el := slt.Elem()
	if isStructType(el) {
		unsupported("append to slice of structs")
	}
	s := x.tv(args[0])
	t := x.tv(args[1])
	one := x.intLit(1, x.idxSort())
	_ = one
	name := x.elemsArr(el)
	rowSort := SArr(x.idxSort(), x.sortOf(el))
	arr := x.heapGet(st, name, SArr(SInt, rowSort))
	n := x.slLen(s)
	m := x.slLen(t)
	newLen := Add(n, m)
	// always model as a fresh backing array holding the concatenation; if the
	// old array is reused Go writes the same values at the same positions of
	// the old array beyond len(s), which no live slice of length <= len(s)
	// can observe. (Assumption: no other slice views the spare capacity.)
	x.usedTrusted["append: the result is modelled as a separate array even when the capacity sufficed (the write into the old backing array is modelled, later aliasing between the two is not)"] = true
	base := x.alloc(st, "backing")
	row := x.d.Fresh("approw", rowSort)
	k := Term{"k", x.idxSort()}
	z := x.intLit(0, x.idxSort())
	st.assume(Forall([]Term{k}, Eq(Select(row, k),
		Ite(Lt(k, n), x.sliceElem(st, s, k, el), x.sliceElem(st, t, Sub(k, n), el))), []Term{Select(row, k)}))
	// When the capacity suffices Go stores the new elements into the OLD
	// backing array, right after the first len(s) elements - visible through
	// every longer view of that array (e.g. the slice s was cut from). That
	// write is modelled (and has to be within the frame); the result is still
	// a separate array (aliasing between s's array and the result afterwards
	// is not modelled).
	fits := And(Neq(s, IntLit(0)), Le(newLen, x.slCap(s)), Gt(m, z))
	oldBase := x.slBase(s)
	oldRow := Select(arr, oldBase)
	clob := x.d.Fresh("clobrow", rowSort)
	lo := Add(x.slOff(s), n)
	st.assume(Forall([]Term{k}, Eq(Select(clob, k),
		Ite(And(fits, Le(lo, k), Lt(k, Add(lo, m))), x.sliceElem(st, t, Sub(k, lo), el), Select(oldRow, k))), []Term{Select(clob, k)}))
	if x.frameReady && len(cfg.loops) > 0 && len(cfg.frames) > 0 && !x.frameWhole[name] && !(x.c != nil && x.c.Options["noframe"] == "true") {
		x.oblige(cfg, "store-in-frame", name+" (append within capacity writes the old backing array)", Or(Not(fits), x.mayWrite(name, oldBase)), nil, pos)
	}
	st.heap[name] = Store(Store(arr, oldBase, clob), base, row)
	cp := x.d.Fresh("cap", x.idxSort())
	st.assume(Ge(cp, newLen))
	if x.mode == "bv" {
		st.assume(Lt(cp, BVLit(1<<48, 64)))
		st.assume(Lt(newLen, BVLit(1<<48, 64)))
	}
	return TV{T: x.newSliceHeader(st, base, z, newLen, cp)}
}

func (x *Exec) copyOp(cfg *Config, args []Val, sig *types.Signature, pos token.Pos) Val {
	unsupported("copy builtin")
	return nil
}

// ---------------------------------------------------------------------------
// maps (dom / val / card per map reference)
// ---------------------------------------------------------------------------

// map arrays are named by the sorts of key and value, not by their Go types:
// a generic method body (map[K]V) and its instantiation (map[T]*Element[T])
// must address the same arrays; maps are distinguished by their reference.
func (x *Exec) mapNames(m *types.Map) (dom, val, card string) {
	ks, vs := string(x.sortOf(m.Key())), string(x.sortOf(m.Elem()))
	return "mapdom!" + ks, "mapval!" + ks + "!" + vs, "mapcard!" + ks
}

func (x *Exec) mapLen(st *State, ref Term, m *types.Map) Term {
	_, _, card := x.mapNames(m)
	return Select(x.heapGet(st, card, SArr(SInt, x.idxSort())), ref)
}

func (x *Exec) makeMap(cfg *Config, f *Frame, i *ssa.MakeMap) Val {
	st := cfg.st
	m := i.Type().Underlying().(*types.Map)
	if isStructType(m.Elem()) || isStructType(m.Key()) {
		unsupported("map with struct key/value")
	}
	r := x.alloc(st, "map")
	dom, _, card := x.mapNames(m)
	ks := x.sortOf(m.Key())
	domArr := x.heapGet(st, dom, SArr(SInt, SArr(ks, SBool)))
	empty := x.d.Fresh("emptydom", SArr(ks, SBool))
	k := Term{"k", ks}
	st.assume(Forall([]Term{k}, Not(Select(empty, k)), []Term{Select(empty, k)}))
	st.heap[dom] = Store(domArr, r, empty)
	cardArr := x.heapGet(st, card, SArr(SInt, x.idxSort()))
	st.heap[card] = Store(cardArr, r, x.intLit(0, x.idxSort()))
	return TV{T: r}
}

func (x *Exec) mapUpdate(cfg *Config, f *Frame, i *ssa.MapUpdate) {
	st := cfg.st
	m := i.Map.Type().Underlying().(*types.Map)
	if isStructType(m.Elem()) || isStructType(m.Key()) {
		unsupported("map with struct key/value")
	}
	ref := x.tv(x.get(f, i.Map))
	x.oblige(cfg, "nil-map-store", x.nameOf(i.Map), Neq(ref, IntLit(0)), nil, i.Pos())
	st.assume(Neq(ref, IntLit(0)))
	key := x.tv(x.get(f, i.Key))
	val := x.tvFor(st, x.get(f, i.Value))
	dom, vals, card := x.mapNames(m)
	ks, vs := x.sortOf(m.Key()), x.sortOf(m.Elem())
	domArr := x.heapGet(st, dom, SArr(SInt, SArr(ks, SBool)))
	valArr := x.heapGet(st, vals, SArr(SInt, SArr(ks, vs)))
	cardArr := x.heapGet(st, card, SArr(SInt, x.idxSort()))
	was := Select(Select(domArr, ref), key)
	st.heap[card] = Store(cardArr, ref, Ite(was, Select(cardArr, ref), Add(Select(cardArr, ref), x.intLit(1, x.idxSort()))))
	st.heap[dom] = Store(domArr, ref, Store(Select(domArr, ref), key, True))
	st.heap[vals] = Store(valArr, ref, Store(Select(valArr, ref), key, val))
}

func (x *Exec) mapDelete(cfg *Config, args []Val, sig *types.Signature) {
	st := cfg.st
	m := sig.Params().At(0).Type().Underlying().(*types.Map)
	ref := x.tv(args[0])
	key := x.tv(args[1])
	dom, _, card := x.mapNames(m)
	ks := x.sortOf(m.Key())
	domArr := x.heapGet(st, dom, SArr(SInt, SArr(ks, SBool)))
	cardArr := x.heapGet(st, card, SArr(SInt, x.idxSort()))
	was := And(Neq(ref, IntLit(0)), Select(Select(domArr, ref), key))
	st.heap[card] = Store(cardArr, ref, Ite(was, Sub(Select(cardArr, ref), x.intLit(1, x.idxSort())), Select(cardArr, ref)))
	st.heap[dom] = Store(domArr, ref, Store(Select(domArr, ref), key, False))
}

func (x *Exec) lookup(cfg *Config, f *Frame, i *ssa.Lookup) Val {
	st := cfg.st
	m, ok := i.X.Type().Underlying().(*types.Map)
	if !ok {
		unsupported("string index")
	}
	if isStructType(m.Elem()) || isStructType(m.Key()) {
		unsupported("map with struct key/value")
	}
	ref := x.tv(x.get(f, i.X))
	key := x.tv(x.get(f, i.Index))
	dom, vals, _ := x.mapNames(m)
	ks, vs := x.sortOf(m.Key()), x.sortOf(m.Elem())
	domArr := x.heapGet(st, dom, SArr(SInt, SArr(ks, SBool)))
	valArr := x.heapGet(st, vals, SArr(SInt, SArr(ks, vs)))
	present := And(Neq(ref, IntLit(0)), Select(Select(domArr, ref), key))
	v := Ite(present, Select(Select(valArr, ref), key), x.zeroTerm(m.Elem()))
	if i.CommaOk {
		return TupV{x.wrapLoaded(v, m.Elem()), TV{T: present}}
	}
	return x.wrapLoaded(v, m.Elem())
}

// Range over a map. The iterator keeps two ghost values per range statement:
// the set of keys produced so far (visited) and their number (visitcount),
// readable in loop invariants. TRUSTED (Go specification): every key produced
// is in the map at that time and was not produced before; when the iteration
// ends every key that was present at the start and still is has been produced;
// if the key set did not change during the iteration, the number of keys
// produced equals len(map).
func miName(r *ssa.Range, what string) string {
	return fmt.Sprintf("$mi!%d!%s", int(r.Pos()), what)
}

func (x *Exec) rangeOp(cfg *Config, f *Frame, i *ssa.Range) Val {
	m, ok := i.X.Type().Underlying().(*types.Map)
	if !ok {
		unsupported("range over string")
	}
	if isStructType(m.Elem()) || isStructType(m.Key()) {
		unsupported("map with struct key/value")
	}
	st := cfg.st
	ref := x.tv(x.get(f, i.X))
	dom, _, _ := x.mapNames(m)
	ks := x.sortOf(m.Key())
	domArr := x.heapGet(st, dom, SArr(SInt, SArr(ks, SBool)))
	none := x.d.Fresh("novisit", SArr(ks, SBool))
	k := Term{"k!mi", ks}
	st.assume(Forall([]Term{k}, Not(Select(none, k)), []Term{Select(none, k)}))
	st.heap[miName(i, "vis")] = none
	st.heap[miName(i, "cnt")] = x.intLit(0, x.idxSort())
	st.heap[miName(i, "dom0")] = Ite(Eq(ref, IntLit(0)), none, Select(domArr, ref))
	x.usedTrusted["model: range over a map (each key at most once; keys present throughout are all produced; count equals len when the key set is unchanged)"] = true
	return TV{T: ref}
}

func (x *Exec) nextOp(cfg *Config, f *Frame, i *ssa.Next) ([]*Config, bool) {
	r, ok := i.Iter.(*ssa.Range)
	if !ok || i.IsString {
		unsupported("range over string")
	}
	m := r.X.Type().Underlying().(*types.Map)
	st := cfg.st
	ref := x.tv(x.get(f, r))
	dom, vals, _ := x.mapNames(m)
	ks, vs := x.sortOf(m.Key()), x.sortOf(m.Elem())
	domArr := x.heapGet(st, dom, SArr(SInt, SArr(ks, SBool)))
	valArr := x.heapGet(st, vals, SArr(SInt, SArr(ks, vs)))
	vis := x.heapGet(st, miName(r, "vis"), SArr(ks, SBool))
	cnt := x.heapGet(st, miName(r, "cnt"), x.idxSort())
	dom0 := x.heapGet(st, miName(r, "dom0"), SArr(ks, SBool))
	okT := x.d.Fresh("rangeok", SBool)
	key := x.d.Fresh("rangekey", ks)
	nonnil := Neq(ref, IntLit(0))
	domNow := Select(domArr, ref)
	k := Term{"k!mi", ks}
	st.assume(Implies(okT, And(nonnil, Select(domNow, key), Not(Select(vis, key)))))
	st.assume(Implies(Not(okT), Forall([]Term{k}, Implies(And(nonnil, Select(domNow, k), Select(dom0, k)), Select(vis, k)), []Term{Select(vis, k)})))
	st.assume(Implies(And(Not(okT), nonnil, Forall([]Term{k}, Eq(Select(domNow, k), Select(dom0, k)))), Eq(cnt, x.mapLen(st, ref, m))))
	st.assume(Implies(And(Not(okT), Not(nonnil)), Eq(cnt, x.intLit(0, x.idxSort()))))
	st.heap[miName(r, "vis")] = Ite(okT, Store(vis, key, True), vis)
	st.heap[miName(r, "cnt")] = Ite(okT, Add(cnt, x.intLit(1, x.idxSort())), cnt)
	val := Select(Select(valArr, ref), key)
	x.assumeLoaded(st, val, m.Elem())
	f.regs[i] = TupV{TV{T: okT}, TV{T: key}, x.wrapLoaded(val, m.Elem())}
	f.idx++
	return nil, false
}
