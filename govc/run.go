package main

import (
	"fmt"
	"go/constant"
	"go/token"
	"go/types"
	"strings"

	"golang.org/x/tools/go/ssa"
)

// ---------------------------------------------------------------------------
// Entry
// ---------------------------------------------------------------------------

func (x *Exec) symbolicOf(st *State, name string, t types.Type) Val {
	if isStructType(t) {
		s := t.Underlying().(*types.Struct)
		sv := SV{Ty: t}
		for i := 0; i < s.NumFields(); i++ {
			sv.F = append(sv.F, x.symbolicOf(st, name+"."+s.Field(i).Name(), s.Field(i).Type()))
		}
		return sv
	}
	if el := derefType(t); el != nil && !isStructType(el) {
		if _, isArr := el.Underlying().(*types.Array); !isArr {
			base := x.d.Const(name, SInt)
			x.assumeValid(st, base)
			return AddrV{Kind: aCell, Arr: x.cellArr(el), Base: base, Elem: el}
		}
	}
	c := x.d.Const(name, x.sortOf(t))
	x.assumeWellTyped(st, c, t)
	return TV{T: c}
}

// assumeWellTyped adds the facts every Go value of this type satisfies.
func (x *Exec) assumeWellTyped(st *State, c Term, t types.Type) {
	switch u := t.Underlying().(type) {
	case *types.Pointer, *types.Map, *types.Chan:
		x.assumeValid(st, c)
	case *types.Slice:
		x.assumeSliceWF(st, c)
	case *types.Basic:
		if u.Info()&types.IsUnsigned != 0 && x.mode != "bv" {
			st.assume(Ge(c, IntLit(0)))
		}
		if u.Info()&types.IsString != 0 {
			st.assume(Ge(x.strLen(c), x.intLit(0, x.idxSort())))
		}
	}
}

func (x *Exec) cellArr(el types.Type) string { return "cell!" + typeName(el) + "!" + string(x.sortOf(el)) }

func (x *Exec) initialConfig() *Config {
	st := &State{heap: map[string]Term{}, nonnil: map[string]bool{}, clos: map[string]*CloV{}}
	fr := &Frame{fn: x.fn, regs: map[ssa.Value]Val{}, depth: 0}
	top0 := x.d.Const("H0!$top", SInt)
	st.heap["$top"] = top0
	st.assume(Ge(top0, IntLit(0)))
	for _, p := range x.fn.Params {
		fr.regs[p] = x.symbolicOf(st, "p!"+p.Name(), p.Type())
	}
	for _, fv := range x.fn.FreeVars {
		fr.regs[fv] = x.symbolicOf(st, "fv!"+fv.Name(), fv.Type())
	}
	if len(x.fn.Blocks) > 0 {
		fr.block = x.fn.Blocks[0]
	}
	cfg := &Config{frames: []*Frame{fr}, st: st}
	return cfg
}

type ssaParamLike struct {
	name string
	typ  types.Type
	val  ssa.Value
	free bool
}

func paramLikes(fn *ssa.Function) []*ssaParamLike {
	var out []*ssaParamLike
	for _, p := range fn.Params {
		out = append(out, &ssaParamLike{p.Name(), p.Type(), p, false})
	}
	for _, fv := range fn.FreeVars {
		if el := derefType(fv.Type()); el != nil {
			out = append(out, &ssaParamLike{fv.Name(), el, fv, true})
		}
	}
	return out
}

// Verify runs the symbolic execution of the function against its contract and
// collects obligations.
func (x *Exec) Verify() {
	if len(x.fn.Blocks) == 0 {
		x.note("no body for %s", fullKey(x.fn))
		x.abstract = true
		return
	}
	if x.c.Implements != "" {
		ic := x.lookupIface(x.c.Implements)
		if ic == nil {
			x.note("interface contract %s not found", x.c.Implements)
			x.abstract = true
			return
		}
		merged := *x.c
		merged.Requires = append(append([]*Clause(nil), ic.Requires...), x.c.Requires...)
		merged.Ensures = append(append([]*Clause(nil), ic.Ensures...), x.c.Ensures...)
		merged.Modifies = append(append([]*Clause(nil), ic.Modifies...), x.c.Modifies...)
		merged.Panics = append(append([]*Clause(nil), ic.Panics...), x.c.Panics...)
		x.c = &merged
		x.ifaceParams = strings.Fields(ic.Options["params"])
	}
	x.curProps = x.c.Props
	x.loops = computeLoops(x.fn)
	// a waiter of several kinds (the caller decides which): each kind is
	// verified separately, from the precondition on
	kinds := strings.Fields(x.c.Options["waitkinds"])
	if len(kinds) == 0 {
		kinds = []string{""}
	}
	for _, k := range kinds {
		x.verifyFrom(k)
		if x.abstract {
			return
		}
	}
}

func (x *Exec) verifyFrom(kind string) {
	cfg := x.initialConfig()
	cfg.kind = kind
	x.curCfg = cfg
	func() {
		defer x.catch("precondition setup")
		env := x.entryEnv(cfg)
		if x.c.Implements != "" && len(x.fn.Params) > 0 {
			// the receiver is an object of exactly this dynamic type
			recv := x.fn.Params[0]
			rt := x.tv(cfg.frames[0].regs[recv])
			cfg.st.assume(And(Neq(rt, IntLit(0)), Eq(x.dynTypeFn()(rt), x.typeTag(recv.Type()))))
			cfg.st.nonnil[rt.S] = true
		}
		for _, r := range x.c.Requires {
			t := x.specBool(env, r.E)
			cfg.st.assume(t)
		}
		x.assumeGlobalAxioms(cfg.st)
		if x.c.Options["sweep"] == "true" {
			// an API entry point is called with no lock held
			m := Term{"m!sw", SInt}
			held := x.heldArr(cfg.st)
			cfg.st.assume(Forall([]Term{m}, Not(Select(held, m)), []Term{Select(held, m)}))
		}
	}()
	if x.abstract {
		return
	}
	func() {
		defer x.catch("held-lock seeding")
		x.seedHeldLocks(cfg)
	}()
	func() {
		defer x.catch("modifies clause")
		x.resolveFrame(cfg)
	}()
	if x.abstract {
		return
	}
	cfg.old = cfg.st.clone()
	// vacuity canary: the precondition must be satisfiable
	x.canary(cfg, "pre-satisfiable", token.NoPos)
	work := []*Config{cfg}
	if cs := x.c.Options["cases"]; cs != "" {
		// case split requested by the contract: each case is verified
		// separately, and the cases must cover the precondition
		work = nil
		var all []Term
		func() {
			defer x.catch("option cases")
			env := x.entryEnv(cfg)
			for _, part := range splitTopLevel(cs, '|') {
				e, err := ParseExpr(strings.TrimSpace(part))
				if err != nil {
					unsupported("option cases: %v", err)
				}
				t := x.specBool(env, e)
				all = append(all, t)
				c := cfg.clone()
				c.st.assume(t)
				c.old = c.st.clone()
				work = append(work, c)
			}
			x.oblige(cfg, "cases-exhaustive", cs, Or(all...), nil, token.NoPos)
		}()
		if x.abstract {
			return
		}
	}
	for len(work) > 0 {
		c := work[len(work)-1]
		work = work[:len(work)-1]
		x.paths++
		if x.paths > x.maxPaths {
			x.note("path cap %d exceeded", x.maxPaths)
			x.abstract = true
			return
		}
		more := x.runPath(c)
		work = append(work, more...)
	}
}

func (x *Exec) lookupIface(key string) *FuncContract {
	for _, cf := range x.P.Contracts {
		if c, ok := cf.Ifaces[key]; ok {
			return c
		}
	}
	return nil
}

func (x *Exec) canary(cfg *Config, detail string, pos token.Pos) {
	o := x.oblige(cfg, "canary", detail, False, nil, pos)
	if o != nil {
		o.Canary = true
	}
}

func (x *Exec) catch(where string) {
	if r := recover(); r != nil {
		if u, ok := r.(unsupportedErr); ok {
			x.note("unsupported in %s: %s", where, u.msg)
			x.abstract = true
			return
		}
		panic(r)
	}
}

// runPath executes one configuration until it terminates or forks.
func (x *Exec) runPath(cfg *Config) (forks []*Config) {
	defer func() {
		if r := recover(); r != nil {
			if u, ok := r.(unsupportedErr); ok {
				where := ""
				if len(cfg.frames) > 0 {
					f := cfg.top()
					if f.block != nil && f.idx < len(f.block.Instrs) {
						where = fmt.Sprintf(" at %s (%s)", x.posOf(f.block.Instrs[f.idx].Pos()), f.block.Instrs[f.idx])
					}
				}
				x.note("unsupported: %s%s", u.msg, where)
				x.abstract = true
				forks = nil
				return
			}
			panic(r)
		}
	}()
	steps := 0
	for {
		steps++
		if steps > 20000 {
			unsupported("step limit on one path")
		}
		if len(cfg.frames) == 0 {
			return forks
		}
		f := cfg.top()
		x.curCfg = cfg
		if f.unwinding {
			if done := x.unwindStep(cfg, f); done {
				return forks
			}
			continue
		}
		if f.idx >= len(f.block.Instrs) {
			unsupported("fell off block")
		}
		in := f.block.Instrs[f.idx]
		more, end := x.step(cfg, f, in)
		forks = append(forks, more...)
		if end {
			return forks
		}
	}
}

// gotoBlock transfers control, handling loop headers of the top-level frame.
// It returns false if the path ends (back edge).
func (x *Exec) gotoBlock(cfg *Config, f *Frame, to *ssa.BasicBlock) bool {
	from := f.block
	if f.depth == 0 && len(cfg.frames) == 1 {
		if ord, isHeader := x.loops.headers[to]; isHeader {
			return x.enterLoopHeader(cfg, f, from, to, ord)
		}
		// leaving loops: pop loop entries whose body does not contain `to`
		for len(cfg.loops) > 0 {
			le := cfg.loops[len(cfg.loops)-1]
			if x.loops.body[le.header][to] {
				break
			}
			cfg.loops = cfg.loops[:len(cfg.loops)-1]
		}
	} else {
		if li := x.loopsOf(f.fn); li != nil {
			if ord, isHeader := li.headers[to]; isHeader {
				if x.c != nil && x.c.Options["sweep"] == "true" {
					return x.sweepLoopHeader(cfg, f, from, to, li)
				}
				if ic := x.P.ContractFor(f.fn); ic != nil && ic.Inline && f.watcher == nil && !f.isDefer {
					return x.enterLoopHeader(cfg, f, from, to, ord)
				}
				unsupported("loop in inlined function %s (needs a contract)", fullKey(f.fn))
			}
			for len(cfg.loops) > 0 {
				le := cfg.loops[len(cfg.loops)-1]
				if le.depth < f.depth || (le.depth == f.depth && li.body[le.header][to]) {
					break
				}
				cfg.loops = cfg.loops[:len(cfg.loops)-1]
			}
		}
	}
	f.prev = from
	f.block = to
	f.idx = 0
	return true
}

// sweepLoopHeader: in the zero-annotation sweep, loops of inlined callees are
// abstracted with the invariant true: on entry everything except the lock
// state is forgotten and one iteration is explored; a back edge ends the path.
// (Lock discipline inside the loop body is still checked on that iteration;
// loops are assumed to be lock-balanced.)
func (x *Exec) sweepLoopHeader(cfg *Config, f *Frame, from, to *ssa.BasicBlock, li *loopInfo) bool {
	if li.body[to][from] {
		return false // back edge
	}
	st := cfg.st
	for _, name := range sortedKeys(st.heap) {
		if strings.HasPrefix(name, "$held") || strings.HasPrefix(name, "$rheld") || name == "$top" {
			continue
		}
		st.heap[name] = x.d.Fresh("SW!"+name, st.heap[name].Sort)
	}
	ntop := x.d.Fresh("top", SInt)
	st.assume(Ge(ntop, x.top(st)))
	st.heap["$top"] = ntop
	n := 0
	for _, in := range to.Instrs {
		p, ok := in.(*ssa.Phi)
		if !ok {
			break
		}
		f.regs[p] = x.symbolicOf(st, x.d.FreshName("SW!"+sanitize(p.Comment)), p.Type())
		n++
	}
	x.note("sweep: loop in %s abstracted (invariant true)", fullKey(f.fn))
	f.prev = from
	f.block = to
	f.idx = n
	return true
}

var loopCache = map[*ssa.Function]*loopInfo{}

func (x *Exec) loopsOf(fn *ssa.Function) *loopInfo {
	if li, ok := loopCache[fn]; ok {
		return li
	}
	li := computeLoops(fn)
	loopCache[fn] = li
	return li
}

// ---------------------------------------------------------------------------
// Instruction step
// ---------------------------------------------------------------------------

func (x *Exec) get(f *Frame, v ssa.Value) Val {
	switch vv := v.(type) {
	case *ssa.Const:
		return x.constVal(vv)
	case *ssa.Global:
		return x.globalAddr(vv)
	case *ssa.Function:
		return &CloV{Fn: vv}
	case *ssa.Builtin:
		unsupported("builtin %s as value", vv.Name())
	}
	if r, ok := f.regs[v]; ok {
		return r
	}
	unsupported("unbound value %s (%T) in %s", v.Name(), v, fullKey(f.fn))
	return nil
}

func (x *Exec) globalAddr(g *ssa.Global) Val {
	el := derefType(g.Type())
	if isStructType(el) {
		name := "glob!" + pkgShortAny(g.Pkg.Pkg.Path()) + "." + g.Name()
		c := x.d.Const(name, SInt)
		x.d.Axiom(Lt(c, IntLit(0)))
		return TV{T: c}
	}
	return AddrV{Kind: aGlobal, G: g, Elem: el}
}

func (x *Exec) constVal(c *ssa.Const) Val {
	t := c.Type()
	if c.Value == nil {
		return x.zeroOf(t)
	}
	switch c.Value.Kind() {
	case constant.Bool:
		if constant.BoolVal(c.Value) {
			return TV{T: True}
		}
		return TV{T: False}
	case constant.Int:
		s := x.sortOf(t)
		if s == SReal {
			f, _ := constant.Float64Val(c.Value)
			return TV{T: x.realLit(f)}
		}
		if i, ok := constant.Int64Val(c.Value); ok {
			return TV{T: x.intLit(i, s)}
		}
		if u, ok := constant.Uint64Val(c.Value); ok {
			if s.IsBV() {
				return TV{T: BVLit(u, s.BVWidth())}
			}
			return TV{T: Term{fmt.Sprintf("%d", u), SInt}}
		}
		unsupported("big constant %s", c.Value)
	case constant.Float:
		if x.sortOf(t) != SReal {
			unsupported("float constant of non-float type")
		}
		return TV{T: Term{realString(c.Value), SReal}}
	case constant.String:
		return TV{T: x.strConst(constant.StringVal(c.Value))}
	}
	unsupported("constant kind %v", c.Value.Kind())
	return nil
}

func realString(v constant.Value) string {
	// exact rational
	num := constant.Num(v)
	den := constant.Denom(v)
	ns, ds := num.ExactString(), den.ExactString()
	neg := strings.HasPrefix(ns, "-")
	if neg {
		ns = ns[1:]
	}
	s := fmt.Sprintf("(/ %s.0 %s.0)", ns, ds)
	if ds == "1" {
		s = ns + ".0"
	}
	if neg {
		s = "(- " + s + ")"
	}
	return s
}

func (x *Exec) realLit(f float64) Term {
	return Term{realString(constant.MakeFloat64(f)), SReal}
}

func (x *Exec) strConst(s string) Term {
	if t, ok := x.strs[s]; ok {
		return t
	}
	id := len(x.strs) + 1
	// string constants are distinct negative ids below -1000000
	t := IntLit(int64(-1000000 - id))
	if s == "" {
		t = IntLit(0)
	}
	x.strs[s] = t
	lenf := x.d.Fun("gstr.len", []Sort{SInt}, x.idxSort())
	x.d.Axiom(Eq(lenf(t), x.intLit(int64(len(s)), x.idxSort())))
	return t
}

func (x *Exec) strLen(s Term) Term {
	return x.d.Fun("gstr.len", []Sort{SInt}, x.idxSort())(s)
}

func (x *Exec) tv(v Val) Term {
	switch vv := v.(type) {
	case TV:
		return vv.T
	case AddrV:
		if vv.Kind == aCell {
			return vv.Base
		}
		unsupported("address of field/element/global used as a first-class value (%s)", vv.Arr)
	case *CloV:
		return x.cloTerm(nil, vv)
	case SV:
		unsupported("struct value used as scalar")
	}
	unsupported("value %T used as scalar", v)
	return Term{}
}

// cloTerm gives a closure an identity term so that it can be stored; the
// binding is remembered on the path.
func (x *Exec) cloTerm(st *State, c *CloV) Term {
	if c.ID.S == "" {
		if len(c.Binds) == 0 {
			c.ID = x.d.Const("fn!"+fullKey(c.Fn), SInt)
			x.d.Axiom(Lt(c.ID, IntLit(0)))
		} else {
			c.ID = x.d.Fresh("clo!"+fullKey(c.Fn), SInt)
			x.d.Axiom(Lt(c.ID, IntLit(0)))
		}
	}
	if st != nil {
		st.clos[c.ID.S] = c
	}
	return c.ID
}

func (x *Exec) step(cfg *Config, f *Frame, in ssa.Instruction) (forks []*Config, end bool) {
	st := cfg.st
	switch i := in.(type) {
	case *ssa.DebugRef:
		// dropped
	case *ssa.Alloc:
		el := derefType(i.Type())
		if isStructType(el) {
			r := x.alloc(st, typeName(el))
			x.noDangling(st, el, r)
			x.storeStruct(st, r, el, x.zeroOf(el).(SV))
			x.ghostInit(cfg, el, r)
			f.regs[i] = TV{T: r}
		} else if at, isArr := el.Underlying().(*types.Array); isArr {
			if isStructType(at.Elem()) {
				unsupported("array of structs")
			}
			r := x.alloc(st, "array")
			name := x.elemsArr(at.Elem())
			arr := x.heapGet(st, name, SArr(SInt, SArr(x.idxSort(), x.sortOf(at.Elem()))))
			zeroRow := x.d.Fresh("zerorow", SArr(x.idxSort(), x.sortOf(at.Elem())))
			k := Term{"k", x.idxSort()}
			st.assume(Forall([]Term{k}, Eq(Select(zeroRow, k), x.zeroTerm(at.Elem())), []Term{Select(zeroRow, k)}))
			st.heap[name] = Store(arr, r, zeroRow)
			f.regs[i] = TV{T: r}
		} else {
			r := x.alloc(st, "cell")
			a := AddrV{Kind: aCell, Arr: x.cellArr(el), Base: r, Elem: el}
			x.store(cfg, a, x.zeroOf(el), el)
			f.regs[i] = a
		}
	case *ssa.FieldAddr:
		base := x.tv(x.get(f, i.X))
		x.nilcheck(cfg, base, x.nameOf(i.X), i.Pos())
		styp := derefType(i.X.Type())
		f.regs[i] = x.fieldAddr(st, styp, i.Field, base)
	case *ssa.Field:
		sv, ok := x.get(f, i.X).(SV)
		if !ok {
			unsupported("Field of non-struct value")
		}
		f.regs[i] = sv.F[i.Field]
	case *ssa.UnOp:
		v := x.unop(cfg, f, i)
		if _, aborted := v.(abortedVal); aborted {
			return nil, false // the watcher frame was popped
		}
		f.regs[i] = v
	case *ssa.BinOp:
		f.regs[i] = x.binop(cfg, i, x.get(f, i.X), x.get(f, i.Y))
	case *ssa.Store:
		av := x.get(f, i.Addr)
		x.guardedAccess(cfg, av, true, x.nameOf(i.Addr), i.Pos())
		x.store(cfg, av, x.get(f, i.Val), i.Val.Type())
	case *ssa.Phi:
		var chosen Val
		for k, p := range f.block.Preds {
			if p == f.prev {
				chosen = x.get(f, i.Edges[k])
				break
			}
		}
		if chosen == nil {
			unsupported("phi without matching predecessor")
		}
		// all phis of a block read their operands simultaneously: SSA
		// construction guarantees operands are not phis of the same block
		// except in loops, where headers are havocked anyway.
		f.regs[i] = chosen
	case *ssa.Jump:
		if !x.gotoBlock(cfg, f, f.block.Succs[0]) {
			return nil, true
		}
		return nil, false
	case *ssa.If:
		c := x.tv(x.get(f, i.Cond))
		thenB, elseB := f.block.Succs[0], f.block.Succs[1]
		switch c.S {
		case "true":
			if !x.gotoBlock(cfg, f, thenB) {
				return nil, true
			}
			return nil, false
		case "false":
			if !x.gotoBlock(cfg, f, elseB) {
				return nil, true
			}
			return nil, false
		}
		// cheap syntactic pruning: the condition (or its negation) is already
		// a conjunct of the path condition
		if known, val := x.pcDecides(st, c); known {
			tgt := elseB
			if val {
				tgt = thenB
			}
			if !x.gotoBlock(cfg, f, tgt) {
				return nil, true
			}
			return nil, false
		}
		other := cfg.clone()
		other.st.assume(Not(c))
		of := other.top()
		if x.gotoBlock(other, of, elseB) {
			forks = append(forks, other)
		}
		st.assume(c)
		if !x.gotoBlock(cfg, f, thenB) {
			return forks, true
		}
		return forks, false
	case *ssa.Return:
		var res []Val
		for _, r := range i.Results {
			res = append(res, x.get(f, r))
		}
		return nil, x.doReturn(cfg, f, res)
	case *ssa.Call:
		return x.doCall(cfg, f, i, i.Common(), i, false)
	case *ssa.Defer:
		x.pushDefer(cfg, f, i)
	case *ssa.Go:
		x.doGo(cfg, f, i)
	case *ssa.RunDefers:
		if len(f.defers) > 0 {
			d := f.defers[len(f.defers)-1]
			f.defers = f.defers[:len(f.defers)-1]
			// stay on this instruction until all defers ran
			return x.callDeferred(cfg, f, d)
		}
	case *ssa.Panic:
		v := x.get(f, i.X)
		x.startPanic(cfg, f, x.tv(v), "explicit panic", i.Pos())
		return nil, false
	case *ssa.MakeInterface:
		f.regs[i] = x.makeInterface(st, x.get(f, i.X), i.X.Type())
	case *ssa.ChangeInterface:
		f.regs[i] = x.get(f, i.X)
	case *ssa.ChangeType:
		f.regs[i] = x.get(f, i.X)
	case *ssa.Convert:
		f.regs[i] = x.convert(x.get(f, i.X), i.X.Type(), i.Type())
	case *ssa.TypeAssert:
		return x.typeAssert(cfg, f, i)
	case *ssa.Extract:
		tup, ok := x.get(f, i.Tuple).(TupV)
		if !ok {
			unsupported("extract from non-tuple")
		}
		f.regs[i] = tup[i.Index]
	case *ssa.MakeClosure:
		fn := i.Fn.(*ssa.Function)
		c := &CloV{Fn: fn, Targs: f.targs}
		for _, b := range i.Bindings {
			c.Binds = append(c.Binds, x.get(f, b))
		}
		f.regs[i] = c
	case *ssa.IndexAddr:
		f.regs[i] = x.indexAddr(cfg, f, i)
	case *ssa.Index:
		f.regs[i] = x.indexVal(cfg, f, i)
	case *ssa.Slice:
		f.regs[i] = x.sliceOp(cfg, f, i)
	case *ssa.MakeSlice:
		f.regs[i] = x.makeSlice(cfg, f, i)
	case *ssa.MakeMap:
		f.regs[i] = x.makeMap(cfg, f, i)
	case *ssa.MapUpdate:
		x.mapUpdate(cfg, f, i)
	case *ssa.Lookup:
		f.regs[i] = x.lookup(cfg, f, i)
	case *ssa.MakeChan:
		r := x.alloc(st, "chan")
		st.heap["$closed"] = Store(x.heapGet(st, "$closed", SArr(SInt, SBool)), r, False)
		f.regs[i] = TV{T: r}
	case *ssa.Select:
		return x.selectOp(cfg, f, i)
	case *ssa.Send:
		x.sendOp(cfg, f, i)
	case *ssa.Range:
		f.regs[i] = x.rangeOp(cfg, f, i)
	case *ssa.Next:
		return x.nextOp(cfg, f, i)
	default:
		unsupported("instruction %T", in)
	}
	f.idx++
	return forks, false
}

// ---------------------------------------------------------------------------
// memory
// ---------------------------------------------------------------------------

func (x *Exec) nilcheck(cfg *Config, ref Term, what string, pos token.Pos) {
	st := cfg.st
	if st.nonnil[ref.S] {
		return
	}
	if strings.HasPrefix(ref.S, "(sub!") || strings.HasPrefix(ref.S, "(|sub!") {
		st.nonnil[ref.S] = true
		return
	}
	x.oblige(cfg, "nil-deref", what, Neq(ref, IntLit(0)), nil, pos)
	st.assume(Neq(ref, IntLit(0)))
	st.nonnil[ref.S] = true
}

func (x *Exec) fieldAddr(st *State, styp types.Type, idx int, base Term) Val {
	s, ok := styp.Underlying().(*types.Struct)
	if !ok {
		unsupported("FieldAddr on non-struct %s", styp)
	}
	ft := s.Field(idx).Type()
	if isStructType(ft) {
		sub := x.subRef(styp, idx, base)
		st.nonnil[sub.S] = true
		return TV{T: sub, Org: &origin{styp, idx, base}}
	}
	if _, isArr := ft.Underlying().(*types.Array); isArr {
		unsupported("array field")
	}
	name, _ := x.fieldArrName(styp, idx)
	return AddrV{Kind: aField, Arr: name, Base: base, Elem: ft, STyp: styp, FIdx: idx}
}

func (x *Exec) addrOfPtr(v Val, elem types.Type) AddrV {
	switch a := v.(type) {
	case AddrV:
		return a
	case TV:
		return AddrV{Kind: aCell, Arr: x.cellArr(elem), Base: a.T, Elem: elem}
	}
	unsupported("pointer value %T", v)
	return AddrV{}
}

func (x *Exec) load(cfg *Config, ptr Val, elem types.Type, pos token.Pos) Val {
	st := cfg.st
	if isStructType(elem) {
		ref := x.tv(ptr)
		x.nilcheck(cfg, ref, "struct load", pos)
		return x.loadStruct(st, ref, elem)
	}
	a := x.addrOfPtr(ptr, elem)
	var t Term
	switch a.Kind {
	case aGlobal:
		name := "glob!" + pkgShortAny(a.G.Pkg.Pkg.Path()) + "." + a.G.Name()
		t = x.d.Const(name, x.sortOf(elem))
		if _, isIface := elem.Underlying().(*types.Interface); isIface && (strings.HasPrefix(a.G.Name(), "Err") || strings.HasPrefix(a.G.Name(), "err") || a.G.Name() == "EOF" || a.G.Name() == "Canceled" || a.G.Name() == "DeadlineExceeded") {
			// package-level error sentinels are non-nil and pairwise distinct from allocations
			x.d.Axiom(Lt(t, IntLit(0)))
		}
		x.usedTrusted["package-level variable "+pkgShortAny(a.G.Pkg.Pkg.Path())+"."+a.G.Name()+" treated as immutable"] = true
		return TV{T: t}
	case aElem:
		if tv, isTV := ptr.(TV); isTV {
			_ = tv
		}
		arr := x.heapGet(st, a.Arr, SArr(SInt, SArr(x.idxSort(), x.sortOf(elem))))
		t = Select(Select(arr, a.Base), a.Idx)
		if a.Slice.S != "" {
			// the same element as seen by specifications (trigger term)
			st.assume(Eq(x.sliceElem(st, a.Slice, a.SIdx, elem), t))
		}
	default:
		if _, isTV := ptr.(TV); isTV {
			x.nilcheck(cfg, a.Base, "pointer load", pos)
		}
		arr := x.heapGet(st, a.Arr, SArr(SInt, x.sortOf(elem)))
		t = Select(arr, a.Base)
	}
	x.assumeLoaded(st, t, elem)
	w := x.wrapLoaded(t, elem)
	if tv, ok := w.(TV); ok {
		if a.Kind == aField {
			tv.Org = &origin{a.STyp, a.FIdx, a.Base}
			if st.orgs == nil {
				st.orgs = map[string]*origin{}
			}
			st.orgs[tv.T.S] = tv.Org
		} else if o, known := st.orgs[tv.T.S]; known {
			tv.Org = o
		}
		return tv
	}
	return w
}

func (x *Exec) wrapLoaded(t Term, elem types.Type) Val {
	if el := derefType(elem); el != nil && !isStructType(el) {
		if _, isArr := el.Underlying().(*types.Array); !isArr {
			return AddrV{Kind: aCell, Arr: x.cellArr(el), Base: t, Elem: el}
		}
	}
	return TV{T: t}
}

func (x *Exec) assumeLoaded(st *State, t Term, elem types.Type) {
	switch elem.Underlying().(type) {
	case *types.Pointer, *types.Map, *types.Chan:
		x.assumeValid(st, t)
	case *types.Slice:
		x.assumeSliceWF(st, t)
	}
}

func (x *Exec) loadStruct(st *State, ref Term, styp types.Type) SV {
	s := styp.Underlying().(*types.Struct)
	sv := SV{Ty: styp}
	for i := 0; i < s.NumFields(); i++ {
		ft := s.Field(i).Type()
		if isStructType(ft) {
			sv.F = append(sv.F, x.loadStruct(st, x.subRef(styp, i, ref), ft))
			continue
		}
		_, arr, _ := x.fieldArr(st, styp, i)
		t := Select(arr, ref)
		x.assumeLoaded(st, t, ft)
		sv.F = append(sv.F, x.wrapLoaded(t, ft))
	}
	return sv
}

func (x *Exec) storeStruct(st *State, ref Term, styp types.Type, v SV) {
	s := styp.Underlying().(*types.Struct)
	for i := 0; i < s.NumFields(); i++ {
		ft := s.Field(i).Type()
		if isStructType(ft) {
			fv, ok := v.F[i].(SV)
			if !ok {
				unsupported("struct field value is not a struct")
			}
			x.storeStruct(st, x.subRef(styp, i, ref), ft, fv)
			continue
		}
		if _, isArr := ft.Underlying().(*types.Array); isArr {
			continue // arrays inside structs are not modelled; reads are unsupported
		}
		name, arr, _ := x.fieldArr(st, styp, i)
		if x.curCfg != nil {
			x.storeInFrame(x.curCfg, name, ref)
		}
		st.heap[name] = Store(arr, ref, x.tvFor(st, v.F[i]))
	}
}

// tvFor converts a value to a storable term, registering closures.
func (x *Exec) tvFor(st *State, v Val) Term {
	if c, ok := v.(*CloV); ok {
		return x.cloTerm(st, c)
	}
	return x.tv(v)
}

func (x *Exec) store(cfg *Config, ptr Val, v Val, vt types.Type) {
	st := cfg.st
	if isStructType(vt) {
		ref := x.tv(ptr)
		x.nilcheck(cfg, ref, "struct store", token.NoPos)
		sv, ok := v.(SV)
		if !ok {
			unsupported("store of non-SV struct")
		}
		x.storeStruct(st, ref, vt, sv)
		return
	}
	a := x.addrOfPtr(ptr, vt)
	val := x.tvFor(st, v)
	switch a.Kind {
	case aGlobal:
		if x.fn.Name() == "init" {
			return
		}
		unsupported("store to global %s", a.G.Name())
	case aElem:
		x.storeInFrame(cfg, a.Arr, a.Base)
		arr := x.heapGet(st, a.Arr, SArr(SInt, SArr(x.idxSort(), x.sortOf(vt))))
		st.heap[a.Arr] = Store(arr, a.Base, Store(Select(arr, a.Base), a.Idx, val))
	default:
		if _, isTV := ptr.(TV); isTV {
			x.nilcheck(cfg, a.Base, "pointer store", token.NoPos)
		}
		x.storeRequires(cfg, a)
		x.storeInFrame(cfg, a.Arr, a.Base)
		arr := x.heapGet(st, a.Arr, SArr(SInt, x.sortOf(vt)))
		st.heap[a.Arr] = Store(arr, a.Base, val)
	}
}

// storeRequires: "option store-requires <captured variable> <expr>": every
// write to that captured variable is made in a state satisfying expr (e.g. a
// cached result is only written while the execution counter is below its
// limit, so it is frozen afterwards).
func (x *Exec) storeRequires(cfg *Config, a AddrV) {
	if x.c == nil || x.c.Options["store-requires"] == "" || a.Kind != aCell || len(cfg.frames) == 0 {
		return
	}
	fs := strings.SplitN(strings.TrimSpace(x.c.Options["store-requires"]), " ", 2)
	if len(fs) != 2 {
		return
	}
	env := x.entryEnv(cfg)
	env.frame = cfg.frames[0]
	env.old = cfg.old
	cell, ok := env.vars["&"+fs[0]]
	if !ok {
		unsupported("option store-requires: %s is not a captured variable", fs[0])
	}
	e, err := ParseExpr(fs[1])
	if err != nil {
		unsupported("option store-requires: %v", err)
	}
	x.oblige(cfg, "store-requires", fs[0]+" written only when "+fs[1], Implies(Eq(a.Base, cell.T), x.specBool(env, e)), nil, token.NoPos)
}

// noDangling: no pointer field already in the heap refers to an object that
// is only now being allocated (memory safety of Go). Stated for the pointer
// fields, of struct types declared in the same package, that point to the
// allocated type.
func (x *Exec) noDangling(st *State, el types.Type, r Term) {
	nt, ok := el.(*types.Named)
	if !ok || nt.Obj().Pkg() == nil {
		return
	}
	want := typeName(el)
	scope := nt.Obj().Pkg().Scope()
	for _, name := range scope.Names() {
		tn, ok := scope.Lookup(name).(*types.TypeName)
		if !ok {
			continue
		}
		s, ok := tn.Type().Underlying().(*types.Struct)
		if !ok {
			continue
		}
		for i := 0; i < s.NumFields(); i++ {
			pt, ok := s.Field(i).Type().(*types.Pointer)
			if !ok || typeName(pt.Elem()) != want {
				continue
			}
			_, arr, _ := x.fieldArr(st, tn.Type(), i)
			o := Term{"o!nd", SInt}
			st.assume(Forall([]Term{o}, Neq(Select(arr, o), r), []Term{Select(arr, o)}))
		}
	}
}

// ghostInit applies "ghostinit S.f(self) = expr" declarations to a freshly
// allocated object (and to structs embedded in it).
func (x *Exec) ghostInit(cfg *Config, styp types.Type, ref Term) {
	s, ok := styp.Underlying().(*types.Struct)
	if !ok {
		return
	}
	for i := 0; i < s.NumFields(); i++ {
		if isStructType(s.Field(i).Type()) {
			x.ghostInit(cfg, s.Field(i).Type(), x.subRef(styp, i, ref))
		}
	}
	tn := typeName(styp)
	for _, cf := range x.P.Contracts {
		for _, raw := range cf.Raw["ghostinit"] {
			eq := strings.Index(raw, " = ")
			if eq < 0 {
				continue
			}
			st, fl, v, ok := parseHead(raw[:eq])
			if !ok || (cf.Pkg+"."+st != tn && st != tn) {
				continue
			}
			cl, err := parseClause("ghostset", nil, v+"."+fl+" == ("+raw[eq+3:]+")", 0)
			if err != nil {
				unsupported("ghostinit: %v", err)
			}
			env := &SpecEnv{x: x, cfg: cfg, st: cfg.st, old: cfg.st, vars: map[string]SpecVal{}, pkg: x.pkgOf(cf.Pkg), cf: cf}
			env.vars[v] = SpecVal{T: ref, Ty: types.NewPointer(styp)}
			x.applyGhostSetIn(cfg, env, cl, cfg.st)
		}
	}
}

// resolveFrame evaluates the modifies clause in the entry state.
func (x *Exec) resolveFrame(cfg *Config) {
	x.frameLocs = map[string][]Term{}
	x.frameWhole = map[string]bool{}
	x.frameSorts = map[string]Sort{}
	env := x.entryEnv(cfg)
	for _, t := range x.resolveModifies(env, x.c) {
		x.frameSorts[t.arr] = t.sort
		if t.loc == nil {
			x.frameWhole[t.arr] = true
		} else {
			x.frameLocs[t.arr] = append(x.frameLocs[t.arr], *t.loc)
		}
	}
	x.frameReady = true
}

// preexisting(o): o denotes an object that existed when the function was
// entered (top-level references are positive; embedded sub-objects are
// negative and owned by a positive root).
func (x *Exec) preexisting(o Term) Term {
	top0 := x.d.Const("H0!$top", SInt)
	root := x.d.Fun("subroot", []Sort{SInt}, SInt)
	return Or(And(Gt(o, IntLit(0)), Le(o, top0)), And(Lt(o, IntLit(0)), Gt(root(o), IntLit(0)), Le(root(o), top0)))
}

// mayWrite(name, base): the modifies clause permits writing array `name` at
// object `base` (or the object was allocated by this invocation).
func (x *Exec) mayWrite(name string, base Term) Term {
	if x.frameWhole[name] {
		return True
	}
	cs := []Term{Not(x.preexisting(base))}
	for _, l := range x.frameLocs[name] {
		cs = append(cs, Eq(base, l))
	}
	return Or(cs...)
}

// storeInFrame: inside loops the havoc at the loop head trusts the modifies
// clause, so every write in a loop body must stay within it.
func (x *Exec) storeInFrame(cfg *Config, name string, base Term) {
	if !x.frameReady || len(cfg.loops) == 0 || len(cfg.frames) == 0 || strings.HasPrefix(name, "$") {
		return
	}
	if x.c != nil && x.c.Options["noframe"] == "true" {
		return
	}
	if x.frameWhole[name] {
		return
	}
	x.oblige(cfg, "store-in-frame", name, x.mayWrite(name, base), nil, token.NoPos)
}

// pcDecides: is c, or its negation, literally one of the (recent) assumptions
// of the path? Only exact syntactic matches count.
func (x *Exec) pcDecides(st *State, c Term) (bool, bool) {
	nc := Not(c).S
	lo := len(st.pc) - 400
	if lo < 0 {
		lo = 0
	}
	for i := len(st.pc) - 1; i >= lo; i-- {
		switch st.pc[i].S {
		case c.S:
			return true, true
		case nc:
			return true, false
		}
	}
	return false, false
}

// ---------------------------------------------------------------------------
// operators
// ---------------------------------------------------------------------------

func (x *Exec) unop(cfg *Config, f *Frame, i *ssa.UnOp) Val {
	switch i.Op {
	case token.MUL:
		pv := x.get(f, i.X)
		x.guardedAccess(cfg, pv, false, x.nameOf(i.X), i.Pos())
		return x.load(cfg, pv, i.Type(), i.Pos())
	case token.NOT:
		return TV{T: Not(x.tv(x.get(f, i.X)))}
	case token.SUB:
		v := x.tv(x.get(f, i.X))
		if v.Sort.IsBV() {
			return TV{T: mk(v.Sort, "bvneg", v)}
		}
		return TV{T: mk(v.Sort, "-", v)}
	case token.XOR:
		v := x.tv(x.get(f, i.X))
		if v.Sort.IsBV() {
			return TV{T: mk(v.Sort, "bvnot", v)}
		}
		unsupported("bitwise not in int mode")
	case token.ARROW:
		return x.recvOp(cfg, f, i)
	}
	unsupported("unary op %s", i.Op)
	return nil
}

func (x *Exec) binop(cfg *Config, i *ssa.BinOp, a, b Val) Val {
	// comparisons of closures / addresses with nil
	if i.Op == token.EQL || i.Op == token.NEQ {
		if _, ok := a.(*CloV); ok {
			a = TV{T: x.cloTerm(cfg.st, a.(*CloV))}
		}
		if _, ok := b.(*CloV); ok {
			b = TV{T: x.cloTerm(cfg.st, b.(*CloV))}
		}
		if sa, ok := a.(SV); ok {
			sb, ok2 := b.(SV)
			if !ok2 {
				unsupported("struct comparison with non-struct")
			}
			eq := x.structEq(sa, sb)
			if i.Op == token.NEQ {
				eq = Not(eq)
			}
			return TV{T: eq}
		}
	}
	l, r := x.tv(a), x.tv(b)
	t := i.X.Type()
	uns := isUnsigned(t)
	bv := l.Sort.IsBV()
	if l.Sort != r.Sort && !(i.Op == token.SHL || i.Op == token.SHR) {
		unsupported("binop sort mismatch %s %s %s", l.Sort, i.Op, r.Sort)
	}
	switch i.Op {
	case token.ADD:
		if _, isStr := t.Underlying().(*types.Basic); isStr && t.Underlying().(*types.Basic).Info()&types.IsString != 0 {
			cat := x.d.Fun("gstr.cat", []Sort{SInt, SInt}, SInt)
			return TV{T: cat(l, r)}
		}
		return TV{T: Add(l, r)}
	case token.SUB:
		return TV{T: Sub(l, r)}
	case token.MUL:
		if !bv && l.Sort == SInt && !isLiteral(l) && !isLiteral(r) {
			x.d.useNL = true
		}
		return TV{T: Mul(l, r)}
	case token.QUO:
		if l.Sort == SReal {
			return TV{T: mk(SReal, "/", l, r)}
		}
		x.oblige(cfg, "div-by-zero", x.nameOf(i.Y), Neq(r, x.intLit(0, r.Sort)), nil, i.Pos())
		cfg.st.assume(Neq(r, x.intLit(0, r.Sort)))
		if bv {
			if uns {
				return TV{T: mk(l.Sort, "bvudiv", l, r)}
			}
			return TV{T: mk(l.Sort, "bvsdiv", l, r)}
		}
		return TV{T: x.truncDiv(l, r)}
	case token.REM:
		x.oblige(cfg, "div-by-zero", x.nameOf(i.Y), Neq(r, x.intLit(0, r.Sort)), nil, i.Pos())
		cfg.st.assume(Neq(r, x.intLit(0, r.Sort)))
		if bv {
			if uns {
				return TV{T: mk(l.Sort, "bvurem", l, r)}
			}
			return TV{T: mk(l.Sort, "bvsrem", l, r)}
		}
		return TV{T: Sub(l, Mul(r, x.truncDiv(l, r)))}
	case token.EQL:
		return TV{T: Eq(l, r)}
	case token.NEQ:
		return TV{T: Neq(l, r)}
	case token.LSS, token.LEQ, token.GTR, token.GEQ:
		if bv && uns {
			op := map[token.Token]string{token.LSS: "bvult", token.LEQ: "bvule", token.GTR: "bvugt", token.GEQ: "bvuge"}[i.Op]
			return TV{T: mk(SBool, op, l, r)}
		}
		switch i.Op {
		case token.LSS:
			return TV{T: Lt(l, r)}
		case token.LEQ:
			return TV{T: Le(l, r)}
		case token.GTR:
			return TV{T: Gt(l, r)}
		default:
			return TV{T: Ge(l, r)}
		}
	case token.AND, token.OR, token.XOR, token.AND_NOT:
		if l.Sort == SBool {
			switch i.Op {
			case token.AND:
				return TV{T: And(l, r)}
			case token.OR:
				return TV{T: Or(l, r)}
			}
		}
		if !bv {
			unsupported("bitwise %s in int mode", i.Op)
		}
		switch i.Op {
		case token.AND:
			return TV{T: mk(l.Sort, "bvand", l, r)}
		case token.OR:
			return TV{T: mk(l.Sort, "bvor", l, r)}
		case token.XOR:
			return TV{T: mk(l.Sort, "bvxor", l, r)}
		default:
			return TV{T: mk(l.Sort, "bvand", l, mk(l.Sort, "bvnot", r))}
		}
	case token.SHL, token.SHR:
		if !bv {
			unsupported("shift in int mode")
		}
		// Go: shift count is unsigned (or panics if negative signed); counts
		// >= width give 0 (or sign fill). SMT bvshl/bvlshr/bvashr have the
		// same saturating semantics when the count is compared at full width.
		w := l.Sort.BVWidth()
		cnt := r
		if !isUnsigned(i.Y.Type()) {
			x.oblige(cfg, "negative-shift", x.nameOf(i.Y), Ge(r, BVLit(0, r.Sort.BVWidth())), nil, i.Pos())
		}
		cw := r.Sort.BVWidth()
		var big Term
		if cw > w {
			big = mk(SBool, "bvuge", r, BVLit(uint64(w), cw))
			cnt = mk(SBV(w), fmt.Sprintf("(_ extract %d 0)", w-1), r)
		} else if cw < w {
			big = False
			cnt = mk(SBV(w), fmt.Sprintf("(_ zero_extend %d)", w-cw), r)
		} else {
			big = False
		}
		var res Term
		if i.Op == token.SHL {
			res = Ite(big, BVLit(0, w), mk(l.Sort, "bvshl", l, cnt))
		} else if uns {
			res = Ite(big, BVLit(0, w), mk(l.Sort, "bvlshr", l, cnt))
		} else {
			res = Ite(big, mk(l.Sort, "bvashr", l, BVLit(uint64(w-1), w)), mk(l.Sort, "bvashr", l, cnt))
		}
		return TV{T: res}
	}
	unsupported("binary op %s", i.Op)
	return nil
}

func isLiteral(t Term) bool {
	return len(t.S) > 0 && (t.S[0] >= '0' && t.S[0] <= '9' || strings.HasPrefix(t.S, "(- "))
}

// truncDiv is Go's truncated integer division in terms of SMT's floor division.
func (x *Exec) truncDiv(l, r Term) Term {
	if isLiteral(r) && !strings.HasPrefix(r.S, "(-") {
		// positive constant divisor: trunc(l/r) = ite(l>=0, l div r, -((-l) div r))
		return Ite(Ge(l, IntLit(0)), mk(SInt, "div", l, r), mk(SInt, "-", mk(SInt, "div", mk(SInt, "-", l), r)))
	}
	x.d.useNL = true
	absl := Ite(Ge(l, IntLit(0)), l, mk(SInt, "-", l))
	absr := Ite(Ge(r, IntLit(0)), r, mk(SInt, "-", r))
	q := mk(SInt, "div", absl, absr)
	same := Eq(Ge(l, IntLit(0)), Ge(r, IntLit(0)))
	return Ite(same, q, mk(SInt, "-", q))
}

func (x *Exec) structEq(a, b SV) Term {
	var cs []Term
	for i := range a.F {
		switch av := a.F[i].(type) {
		case SV:
			cs = append(cs, x.structEq(av, b.F[i].(SV)))
		default:
			cs = append(cs, Eq(x.tv(a.F[i]), x.tv(b.F[i])))
		}
	}
	return And(cs...)
}

func (x *Exec) convert(v Val, from, to types.Type) Val {
	fb, fok := from.Underlying().(*types.Basic)
	tb, tok := to.Underlying().(*types.Basic)
	if !fok || !tok {
		// e.g. []byte <-> string, pointer conversions
		if _, isTV := v.(TV); isTV {
			fs, ts := x.sortOf(from), x.sortOf(to)
			if fs == ts {
				if fok != tok {
					// string <-> []byte etc: opaque
					conv := x.d.Fun("conv!"+typeName(from)+"!"+typeName(to), []Sort{fs}, ts)
					return TV{T: conv(x.tv(v))}
				}
				return v
			}
		}
		unsupported("conversion %s -> %s", from, to)
	}
	t := x.tv(v)
	fi, ti := fb.Info(), tb.Info()
	switch {
	case fi&types.IsInteger != 0 && ti&types.IsInteger != 0:
		if !t.Sort.IsBV() {
			if ti&types.IsUnsigned != 0 && fi&types.IsUnsigned == 0 {
				x.usedTrusted["signed->unsigned conversion treated as identity on mathematical integers"] = true
			}
			return TV{T: t}
		}
		fw, tw := t.Sort.BVWidth(), x.intSort(to).BVWidth()
		switch {
		case fw == tw:
			return TV{T: t}
		case fw > tw:
			return TV{T: mk(SBV(tw), fmt.Sprintf("(_ extract %d 0)", tw-1), t)}
		default:
			if fi&types.IsUnsigned != 0 {
				return TV{T: mk(SBV(tw), fmt.Sprintf("(_ zero_extend %d)", tw-fw), t)}
			}
			return TV{T: mk(SBV(tw), fmt.Sprintf("(_ sign_extend %d)", tw-fw), t)}
		}
	case fi&types.IsInteger != 0 && ti&types.IsFloat != 0:
		if t.Sort.IsBV() {
			f := x.d.Fun("bv2real!"+fmt.Sprint(t.Sort.BVWidth()), []Sort{t.Sort}, SReal)
			return TV{T: f(t)}
		}
		return TV{T: mk(SReal, "to_real", t)}
	case fi&types.IsFloat != 0 && ti&types.IsInteger != 0:
		if x.mode == "bv" {
			f := x.d.Fun("real2bv!"+fmt.Sprint(x.intSort(to).BVWidth()), []Sort{SReal}, x.intSort(to))
			return TV{T: f(t)}
		}
		// truncation toward zero
		fl := mk(SInt, "to_int", t)
		neg := mk(SInt, "-", mk(SInt, "to_int", mk(SReal, "-", t)))
		return TV{T: Ite(Ge(t, RealLit("0.0")), fl, neg)}
	case fi&types.IsFloat != 0 && ti&types.IsFloat != 0:
		return TV{T: t}
	case fi&types.IsString != 0 && ti&types.IsString != 0:
		return TV{T: t}
	}
	unsupported("conversion %s -> %s", from, to)
	return nil
}

// ---------------------------------------------------------------------------
// interfaces
// ---------------------------------------------------------------------------

func (x *Exec) dynTypeFn() func(...Term) Term { return x.d.Fun("dyntype", []Sort{SInt}, SInt) }

var typeTags = map[string]int64{}

func (x *Exec) typeTag(t types.Type) Term {
	name := typeName(t)
	if _, ok := typeTags[name]; !ok {
		typeTags[name] = int64(len(typeTags) + 1)
	}
	tag := IntLit(typeTags[name])
	if x.taggedTypes == nil {
		x.taggedTypes = map[string]types.Type{}
	}
	if _, seen := x.taggedTypes[name]; !seen {
		x.taggedTypes[name] = t
		for _, ip := range x.implPreds {
			x.implFact(ip, t, tag)
		}
	}
	return tag
}

// implPred is an "implements" predicate over dynamic type tags: for concrete
// types known to the analysis its value is a fact of the type checker.
type implPred struct {
	fn  func(...Term) Term
	sig string // method signature list as produced by ifaceSig
}

func (x *Exec) implementsFn(name, sig string) func(...Term) Term {
	fn := x.d.Fun(name, []Sort{SInt}, SBool)
	for _, ip := range x.implPreds {
		if ip.sig == sig && ip.fn != nil && fmt.Sprint(name) == ip.name {
			return fn
		}
	}
	ip := implPred2{implPred{fn, sig}, name}
	x.implPreds = append(x.implPreds, ip)
	for tn, t := range x.taggedTypes {
		x.implFact(ip, t, IntLit(typeTags[tn]))
	}
	return fn
}

type implPred2 struct {
	implPred
	name string
}

// implFact states whether concrete type t has all methods of the signature list.
func (x *Exec) implFact(ip implPred2, t types.Type, tag Term) {
	if _, isIface := t.Underlying().(*types.Interface); isIface {
		return
	}
	if _, isTP := t.(*types.TypeParam); isTP {
		return
	}
	ms := types.NewMethodSet(t)
	all := true
	for _, want := range strings.Split(ip.sig, ";") {
		if want == "" {
			continue
		}
		found := false
		for i := 0; i < ms.Len(); i++ {
			m := ms.At(i).Obj()
			got := m.Name() + strings.ReplaceAll(strings.TrimPrefix(m.Type().String(), "func"), " ", "")
			if got == want {
				found = true
			}
		}
		if !found {
			all = false
		}
	}
	if all {
		x.d.Axiom(ip.fn(tag))
	} else {
		x.d.Axiom(Not(ip.fn(tag)))
	}
}

func (x *Exec) makeInterface(st *State, v Val, from types.Type) Val {
	if _, isIface := from.Underlying().(*types.Interface); isIface {
		return v
	}
	switch vv := v.(type) {
	case TV:
		if _, isPtr := from.Underlying().(*types.Pointer); isPtr {
			// identity boxing for pointers; typed-nil interfaces are not modelled
			st.assume(Or(Eq(vv.T, IntLit(0)), Eq(x.dynTypeFn()(vv.T), x.typeTag(from))))
			return TV{T: vv.T, Dyn: from, Org: vv.Org}
		}
		if x.sortOf(from) == SInt {
			if _, isBasic := from.Underlying().(*types.Basic); !isBasic {
				// maps, chans, funcs, slices: identity boxing
				return TV{T: vv.T, Dyn: from}
			}
		}
		box := x.d.Fun("box!"+typeName(from), []Sort{vv.T.Sort}, SInt)
		unbox := x.d.Fun("unbox!"+typeName(from), []Sort{SInt}, vv.T.Sort)
		bv := Term{"b", vv.T.Sort}
		x.d.Axiom(Forall([]Term{bv}, And(Eq(unbox(box(bv)), bv), Lt(box(bv), IntLit(0)), Eq(x.dynTypeFn()(box(bv)), x.typeTag(from))), []Term{box(bv)}))
		return TV{T: box(vv.T), Dyn: from}
	case *CloV:
		return TV{T: x.cloTerm(st, vv), Dyn: from}
	case SV:
		// a struct boxed by value: fresh immutable object holding the fields
		r := x.alloc(st, "boxed."+typeName(from))
		x.storeStruct(st, r, from, vv)
		st.assume(Eq(x.dynTypeFn()(r), x.typeTag(from)))
		return TV{T: r, Dyn: from}
	case AddrV:
		if vv.Kind == aCell {
			return TV{T: vv.Base, Dyn: from}
		}
	}
	unsupported("MakeInterface of %T", v)
	return nil
}

func (x *Exec) typeAssert(cfg *Config, f *Frame, i *ssa.TypeAssert) (forks []*Config, end bool) {
	v, ok := x.get(f, i.X).(TV)
	if !ok {
		unsupported("type assert on non-scalar")
	}
	_, toIface := i.AssertedType.Underlying().(*types.Interface)
	var holds Term
	if v.Dyn != nil && !toIface {
		if types.Identical(v.Dyn, i.AssertedType) {
			holds = Neq(v.T, IntLit(0))
			if _, isPtr := v.Dyn.Underlying().(*types.Pointer); !isPtr {
				holds = True
			}
		} else {
			holds = False
		}
	} else if toIface {
		if v.Dyn != nil {
			if types.Implements(v.Dyn, i.AssertedType.Underlying().(*types.Interface)) {
				holds = Neq(v.T, IntLit(0))
				if _, isPtr := v.Dyn.Underlying().(*types.Pointer); !isPtr {
					holds = True
				}
			} else {
				holds = False
			}
		} else {
			impl := x.implementsFn("implements!"+typeName(i.AssertedType)+"!"+ifaceSig(i.AssertedType), ifaceSig(i.AssertedType))
			holds = And(Neq(v.T, IntLit(0)), impl(x.dynTypeFn()(v.T)))
		}
	} else {
		holds = And(Neq(v.T, IntLit(0)), Eq(x.dynTypeFn()(v.T), x.typeTag(i.AssertedType)))
	}
	result := x.unboxAs(v, i.AssertedType)
	if i.CommaOk {
		zero := x.zeroOf(i.AssertedType)
		var val Val
		if rt, isTV := result.(TV); isTV {
			if zt, zok := zero.(TV); zok {
				val = TV{T: Ite(holds, rt.T, zt.T), Dyn: rt.Dyn}
			}
		}
		if val == nil {
			val = result
		}
		f.regs[i] = TupV{val, TV{T: holds}}
		f.idx++
		return nil, false
	}
	x.oblige(cfg, "type-assert", x.nameOf(i.X)+".("+typeName(i.AssertedType)+")", holds, nil, i.Pos())
	cfg.st.assume(holds)
	f.regs[i] = result
	f.idx++
	return nil, false
}

func ifaceSig(t types.Type) string {
	it, ok := t.Underlying().(*types.Interface)
	if !ok {
		return ""
	}
	var ms []string
	for k := 0; k < it.NumMethods(); k++ {
		m := it.Method(k)
		ms = append(ms, m.Name()+strings.ReplaceAll(strings.TrimPrefix(m.Type().String(), "func"), " ", ""))
	}
	return strings.Join(ms, ";")
}

func (x *Exec) unboxAs(v TV, to types.Type) Val {
	if _, isIface := to.Underlying().(*types.Interface); isIface {
		return v
	}
	if _, isPtr := to.Underlying().(*types.Pointer); isPtr {
		if el := derefType(to); !isStructType(el) {
			return AddrV{Kind: aCell, Arr: x.cellArr(el), Base: v.T, Elem: el}
		}
		return TV{T: v.T, Org: v.Org}
	}
	if isStructType(to) {
		unsupported("type assertion to struct value")
	}
	s := x.sortOf(to)
	if s == SInt {
		if _, isBasic := to.Underlying().(*types.Basic); !isBasic {
			return TV{T: v.T}
		}
	}
	unbox := x.d.Fun("unbox!"+typeName(to), []Sort{SInt}, s)
	return TV{T: unbox(v.T)}
}
