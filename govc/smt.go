package main

import (
	"fmt"
	"sort"
	"strings"
	"sync"
)

// Sort is an SMT-LIB sort, kept as its textual form.
type Sort string

const (
	SInt  Sort = "Int"
	SBool Sort = "Bool"
	SReal Sort = "Real"
)

func SBV(n int) Sort          { return Sort(fmt.Sprintf("(_ BitVec %d)", n)) }
func SArr(i, e Sort) Sort     { return Sort(fmt.Sprintf("(Array %s %s)", i, e)) }
func (s Sort) IsBV() bool     { return strings.HasPrefix(string(s), "(_ BitVec") }
func (s Sort) IsArr() bool    { return strings.HasPrefix(string(s), "(Array ") }
func (s Sort) BVWidth() int   { var n int; fmt.Sscanf(string(s), "(_ BitVec %d)", &n); return n }
func (s Sort) String() string { return string(s) }

// ElemSort returns the element sort of an array sort.
func (s Sort) ElemSort() Sort {
	str := string(s)
	if !s.IsArr() {
		panic("ElemSort of non-array " + str)
	}
	// (Array I E): find the split after the index sort.
	inner := str[len("(Array ") : len(str)-1]
	depth := 0
	for i, c := range inner {
		switch c {
		case '(':
			depth++
		case ')':
			depth--
		case ' ':
			if depth == 0 {
				return Sort(inner[i+1:])
			}
		}
	}
	panic("bad array sort " + str)
}

func (s Sort) IndexSort() Sort {
	str := string(s)
	inner := str[len("(Array ") : len(str)-1]
	depth := 0
	for i, c := range inner {
		switch c {
		case '(':
			depth++
		case ')':
			depth--
		case ' ':
			if depth == 0 {
				return Sort(inner[:i])
			}
		}
	}
	panic("bad array sort " + str)
}

// Term is an SMT-LIB term with its sort.
type Term struct {
	S    string
	Sort Sort
}

func (t Term) String() string { return t.S }
func (t Term) IsZero() bool   { return t.S == "" }

func mk(sort Sort, op string, args ...Term) Term {
	var b strings.Builder
	b.WriteByte('(')
	b.WriteString(op)
	for _, a := range args {
		b.WriteByte(' ')
		b.WriteString(a.S)
	}
	b.WriteByte(')')
	return Term{b.String(), sort}
}

var (
	True  = Term{"true", SBool}
	False = Term{"false", SBool}
)

func IntLit(n int64) Term {
	if n < 0 {
		return Term{fmt.Sprintf("(- %d)", -n), SInt}
	}
	return Term{fmt.Sprintf("%d", n), SInt}
}

func BVLit(v uint64, w int) Term {
	if w < 64 {
		v &= (uint64(1) << uint(w)) - 1
	}
	return Term{fmt.Sprintf("(_ bv%d %d)", v, w), SBV(w)}
}

func RealLit(s string) Term { return Term{s, SReal} }

func And(ts ...Term) Term {
	var xs []Term
	for _, t := range ts {
		if t.S == "true" {
			continue
		}
		if t.S == "false" {
			return False
		}
		xs = append(xs, t)
	}
	switch len(xs) {
	case 0:
		return True
	case 1:
		return xs[0]
	}
	return mk(SBool, "and", xs...)
}

func Or(ts ...Term) Term {
	var xs []Term
	for _, t := range ts {
		if t.S == "false" {
			continue
		}
		if t.S == "true" {
			return True
		}
		xs = append(xs, t)
	}
	switch len(xs) {
	case 0:
		return False
	case 1:
		return xs[0]
	}
	return mk(SBool, "or", xs...)
}

func Not(t Term) Term {
	switch t.S {
	case "true":
		return False
	case "false":
		return True
	}
	if strings.HasPrefix(t.S, "(not ") {
		return Term{t.S[5 : len(t.S)-1], SBool}
	}
	return mk(SBool, "not", t)
}

func Implies(a, b Term) Term {
	if a.S == "true" {
		return b
	}
	if a.S == "false" || b.S == "true" {
		return True
	}
	return mk(SBool, "=>", a, b)
}

func Eq(a, b Term) Term {
	if a.S == b.S {
		return True
	}
	if a.Sort != b.Sort {
		panic(fmt.Sprintf("Eq sort mismatch: %s:%s vs %s:%s", a.S, a.Sort, b.S, b.Sort))
	}
	if a.Sort == SBool {
		switch {
		case a.S == "true":
			return b
		case b.S == "true":
			return a
		case a.S == "false":
			return Not(b)
		case b.S == "false":
			return Not(a)
		}
	}
	return mk(SBool, "=", a, b)
}

func Neq(a, b Term) Term { return Not(Eq(a, b)) }

func Ite(c, a, b Term) Term {
	if c.S == "true" {
		return a
	}
	if c.S == "false" {
		return b
	}
	if a.S == b.S {
		return a
	}
	if a.Sort != b.Sort {
		panic(fmt.Sprintf("Ite sort mismatch: %s:%s vs %s:%s", a.S, a.Sort, b.S, b.Sort))
	}
	return mk(a.Sort, "ite", c, a, b)
}

type storeInfo struct{ arr, idx, val Term }

var (
	storeTable = map[string]storeInfo{}
	storeMu    sync.Mutex
)

// distinctFresh: two different allocation constants denote different objects.
func distinctFresh(a, b Term) bool {
	isNew := func(t Term) bool { return strings.HasPrefix(t.S, "new!") || strings.HasPrefix(t.S, "|new!") }
	return a.S != b.S && isNew(a) && isNew(b)
}

// Select simplifies reads over syntactically matching (or provably distinct
// fresh) stores; everything else is left to the solver.
func Select(arr, idx Term) Term {
	for {
		storeMu.Lock()
		si, ok := storeTable[arr.S]
		storeMu.Unlock()
		if !ok {
			break
		}
		if si.idx.S == idx.S {
			return si.val
		}
		if distinctFresh(si.idx, idx) {
			arr = si.arr
			continue
		}
		break
	}
	return mk(arr.Sort.ElemSort(), "select", arr, idx)
}

func Store(arr, idx, v Term) Term {
	if arr.Sort.ElemSort() != v.Sort {
		panic(fmt.Sprintf("Store sort mismatch: %s elem %s vs %s:%s", arr.S, arr.Sort.ElemSort(), v.S, v.Sort))
	}
	t := mk(arr.Sort, "store", arr, idx, v)
	storeMu.Lock()
	storeTable[t.S] = storeInfo{arr, idx, v}
	storeMu.Unlock()
	return t
}

func Add(a, b Term) Term {
	if a.Sort.IsBV() {
		return mk(a.Sort, "bvadd", a, b)
	}
	return mk(a.Sort, "+", a, b)
}
func Sub(a, b Term) Term {
	if a.Sort.IsBV() {
		return mk(a.Sort, "bvsub", a, b)
	}
	return mk(a.Sort, "-", a, b)
}
func Mul(a, b Term) Term {
	if a.Sort.IsBV() {
		return mk(a.Sort, "bvmul", a, b)
	}
	return mk(a.Sort, "*", a, b)
}
func Lt(a, b Term) Term {
	if a.Sort.IsBV() {
		return mk(SBool, "bvslt", a, b)
	}
	return mk(SBool, "<", a, b)
}
func Le(a, b Term) Term {
	if a.Sort.IsBV() {
		return mk(SBool, "bvsle", a, b)
	}
	return mk(SBool, "<=", a, b)
}
func Gt(a, b Term) Term { return Lt(b, a) }
func Ge(a, b Term) Term { return Le(b, a) }

func Forall(vars []Term, body Term, patterns ...[]Term) Term {
	if len(vars) == 0 {
		return body
	}
	var b strings.Builder
	b.WriteString("(forall (")
	for _, v := range vars {
		fmt.Fprintf(&b, "(%s %s)", v.S, v.Sort)
	}
	b.WriteString(") ")
	if len(patterns) > 0 {
		b.WriteString("(! ")
		b.WriteString(body.S)
		for _, p := range patterns {
			b.WriteString(" :pattern (")
			for i, t := range p {
				if i > 0 {
					b.WriteByte(' ')
				}
				b.WriteString(t.S)
			}
			b.WriteString(")")
		}
		b.WriteString(")")
	} else {
		b.WriteString(body.S)
	}
	b.WriteString(")")
	return Term{b.String(), SBool}
}

func Exists(vars []Term, body Term, patterns ...[]Term) Term {
	if len(vars) == 0 {
		return body
	}
	var b strings.Builder
	b.WriteString("(exists (")
	for _, v := range vars {
		fmt.Fprintf(&b, "(%s %s)", v.S, v.Sort)
	}
	b.WriteString(") ")
	if len(patterns) > 0 {
		b.WriteString("(! ")
		b.WriteString(body.S)
		for _, p := range patterns {
			b.WriteString(" :pattern (")
			for i, t := range p {
				if i > 0 {
					b.WriteByte(' ')
				}
				b.WriteString(t.S)
			}
			b.WriteString(")")
		}
		b.WriteString(")")
	} else {
		b.WriteString(body.S)
	}
	b.WriteString(")")
	return Term{b.String(), SBool}
}

// Decls collects the constant / function declarations and global axioms a
// query needs.
type Decls struct {
	consts map[string]Sort
	funs   map[string]string // name -> "(sig) ret"
	order  []string
	axioms []Term
	axseen map[string]bool
	sorts  map[string]bool
	fresh  map[string]int
	useBV  bool
	useQ   bool
	useNL  bool
}

func NewDecls() *Decls {
	return &Decls{consts: map[string]Sort{}, funs: map[string]string{}, axseen: map[string]bool{}, sorts: map[string]bool{}, fresh: map[string]int{}}
}

func smtIdent(s string) string {
	ok := true
	for _, c := range s {
		if !(c >= 'a' && c <= 'z' || c >= 'A' && c <= 'Z' || c >= '0' && c <= '9' || strings.ContainsRune("_.!$-^~/<>@", c)) {
			ok = false
			break
		}
	}
	if ok && s != "" && !(s[0] >= '0' && s[0] <= '9') {
		return s
	}
	s = strings.ReplaceAll(s, "|", "!")
	s = strings.ReplaceAll(s, "\\", "!")
	return "|" + s + "|"
}

func (d *Decls) Const(name string, sort Sort) Term {
	id := smtIdent(name)
	if old, ok := d.consts[id]; ok {
		if old != sort {
			panic(fmt.Sprintf("const %s redeclared with sort %s (was %s)", id, sort, old))
		}
		return Term{id, sort}
	}
	d.consts[id] = sort
	d.order = append(d.order, id)
	return Term{id, sort}
}

// Fresh makes a new constant with a unique name derived from hint.
func (d *Decls) Fresh(hint string, sort Sort) Term {
	d.fresh[hint]++
	return d.Const(fmt.Sprintf("%s!%d", hint, d.fresh[hint]), sort)
}

// FreshName returns a unique undeclared name derived from hint.
func (d *Decls) FreshName(hint string) string {
	d.fresh[hint]++
	return fmt.Sprintf("%s!%d", hint, d.fresh[hint])
}

// Fun declares an uninterpreted function and returns an applicator.
func (d *Decls) Fun(name string, args []Sort, ret Sort) func(...Term) Term {
	id := smtIdent(name)
	var as []string
	for _, a := range args {
		as = append(as, string(a))
	}
	sig := "(" + strings.Join(as, " ") + ") " + string(ret)
	if old, ok := d.funs[id]; ok {
		if old != sig {
			panic(fmt.Sprintf("fun %s redeclared %s (was %s)", id, sig, old))
		}
	} else {
		d.funs[id] = sig
		d.order = append(d.order, id)
	}
	return func(ts ...Term) Term {
		if len(ts) != len(args) {
			panic("arity mismatch for " + id)
		}
		for i := range ts {
			if ts[i].Sort != args[i] {
				panic(fmt.Sprintf("fun %s arg %d sort %s want %s", id, i, ts[i].Sort, args[i]))
			}
		}
		if len(ts) == 0 {
			return Term{id, ret}
		}
		return mk(ret, id, ts...)
	}
}

func (d *Decls) Axiom(t Term) {
	if d.axseen[t.S] {
		return
	}
	d.axseen[t.S] = true
	d.axioms = append(d.axioms, t)
}

// Script renders a full query: declarations, axioms, assumptions, negated goal.
// Only symbols that occur textually in the query are declared.
func (d *Decls) Script(assumptions []Term, goal Term, wantModel bool) string {
	return d.ScriptOpt(assumptions, goal, wantModel, false)
}

// ScriptOpt with dropQuant omits every quantified axiom and assumption: the
// result under-constrains the problem, so a model of it is only a candidate
// counterexample (to be replayed on the real code), never a proof.
func (d *Decls) ScriptOpt(assumptions []Term, goal Term, wantModel bool, dropQuant bool) string {
	var body strings.Builder
	isQ := func(s string) bool { return strings.Contains(s, "(forall ") || strings.Contains(s, "(exists ") }
	for _, a := range d.axioms {
		if dropQuant && isQ(a.S) {
			continue
		}
		fmt.Fprintf(&body, "(assert %s)\n", a.S)
	}
	for _, a := range assumptions {
		if a.S == "true" {
			continue
		}
		if dropQuant && isQ(a.S) {
			continue
		}
		fmt.Fprintf(&body, "(assert %s)\n", a.S)
	}
	fmt.Fprintf(&body, "(assert (not %s))\n", goal.S)
	text := body.String()
	used := usedSymbols(text)
	// package-level error sentinels hold pairwise distinct values
	var sent []string
	for _, id := range d.order {
		if used[id] && d.consts[id] == SInt && (strings.HasPrefix(id, "glob!") || strings.HasPrefix(id, "|glob!")) && isSentinelName(id) {
			sent = append(sent, id)
		}
	}
	if len(sent) > 1 {
		text = "(assert (distinct " + strings.Join(sent, " ") + "))\n" + text
	}
	var b strings.Builder
	if wantModel {
		b.WriteString("(set-option :produce-models true)\n")
	}
	b.WriteString("(set-logic ALL)\n")
	for _, id := range d.order {
		if !used[id] {
			continue
		}
		if s, ok := d.consts[id]; ok {
			fmt.Fprintf(&b, "(declare-fun %s () %s)\n", id, s)
		} else {
			fmt.Fprintf(&b, "(declare-fun %s %s)\n", id, d.funs[id])
		}
	}
	b.WriteString(text)
	b.WriteString("(check-sat)\n")
	if wantModel {
		b.WriteString("(get-model)\n")
	}
	return b.String()
}

func isSentinelName(id string) bool {
	i := strings.LastIndex(id, ".")
	if i < 0 {
		return false
	}
	n := strings.TrimSuffix(id[i+1:], "|")
	return strings.HasPrefix(n, "Err") || strings.HasPrefix(n, "err") || n == "EOF" || n == "Canceled" || n == "DeadlineExceeded"
}

func usedSymbols(text string) map[string]bool {
	used := map[string]bool{}
	i := 0
	n := len(text)
	for i < n {
		c := text[i]
		switch {
		case c == '|':
			j := strings.IndexByte(text[i+1:], '|')
			if j < 0 {
				i = n
				break
			}
			used[text[i:i+j+2]] = true
			i += j + 2
		case c == '(' || c == ')' || c == ' ' || c == '\n' || c == '\t':
			i++
		default:
			j := i
			for j < n && !strings.ContainsRune("() \n\t|", rune(text[j])) {
				j++
			}
			used[text[i:j]] = true
			i = j
		}
	}
	return used
}

func sortedKeys[V any](m map[string]V) []string {
	ks := make([]string, 0, len(m))
	for k := range m {
		ks = append(ks, k)
	}
	sort.Strings(ks)
	return ks
}
