package main

import (
	"fmt"
	"os"
	"path/filepath"
	"strconv"
	"strings"
	"unicode"
)

// ---------------------------------------------------------------------------
// Contract expression AST
// ---------------------------------------------------------------------------

type Expr interface{ exprString() string }

type (
	EIdent  struct{ Name string }
	EInt    struct{ V int64 }
	EReal   struct{ V string }
	EStr    struct{ V string }
	EBool   struct{ V bool }
	ENil    struct{}
	EUnary  struct {
		Op string
		X  Expr
	}
	EBinary struct {
		Op   string
		L, R Expr
	}
	ECond  struct{ C, A, B Expr }
	EField struct {
		X    Expr
		Name string
	}
	EIndex struct{ X, I Expr }
	ESlice struct{ X, Lo, Hi Expr } // Lo/Hi may be nil
	ECall  struct {
		Fn   string
		Args []Expr
	}
	EQuant struct {
		Forall bool
		Vars   []QVar
		Body   Expr
	}
	ESeqLit struct{ Elems []Expr }
)

type QVar struct{ Name, Type string }

func (e EIdent) exprString() string  { return e.Name }
func (e EInt) exprString() string    { return strconv.FormatInt(e.V, 10) }
func (e EReal) exprString() string   { return e.V }
func (e EStr) exprString() string    { return strconv.Quote(e.V) }
func (e EBool) exprString() string   { return strconv.FormatBool(e.V) }
func (e ENil) exprString() string    { return "nil" }
func (e EUnary) exprString() string  { return e.Op + e.X.exprString() }
func (e EBinary) exprString() string { return "(" + e.L.exprString() + " " + e.Op + " " + e.R.exprString() + ")" }
func (e ECond) exprString() string {
	return "(" + e.C.exprString() + " ? " + e.A.exprString() + " : " + e.B.exprString() + ")"
}
func (e EField) exprString() string { return e.X.exprString() + "." + e.Name }
func (e EIndex) exprString() string { return e.X.exprString() + "[" + e.I.exprString() + "]" }
func (e ESlice) exprString() string {
	s := e.X.exprString() + "["
	if e.Lo != nil {
		s += e.Lo.exprString()
	}
	s += ":"
	if e.Hi != nil {
		s += e.Hi.exprString()
	}
	return s + "]"
}
func (e ECall) exprString() string {
	var as []string
	for _, a := range e.Args {
		as = append(as, a.exprString())
	}
	return e.Fn + "(" + strings.Join(as, ", ") + ")"
}
func (e EQuant) exprString() string {
	q := "exists"
	if e.Forall {
		q = "forall"
	}
	var vs []string
	for _, v := range e.Vars {
		vs = append(vs, v.Name+": "+v.Type)
	}
	return "(" + q + " " + strings.Join(vs, ", ") + " :: " + e.Body.exprString() + ")"
}
func (e ESeqLit) exprString() string {
	var as []string
	for _, a := range e.Elems {
		as = append(as, a.exprString())
	}
	return "[" + strings.Join(as, ", ") + "]"
}

// ---------------------------------------------------------------------------
// Lexer / parser
// ---------------------------------------------------------------------------

type ctoken struct {
	kind string // ident int real str op eof
	text string
}

func lexExpr(s string) ([]ctoken, error) {
	var toks []ctoken
	i := 0
	for i < len(s) {
		c := rune(s[i])
		switch {
		case unicode.IsSpace(c):
			i++
		case unicode.IsLetter(c) || c == '_' || c == '$':
			j := i
			for j < len(s) && (unicode.IsLetter(rune(s[j])) || unicode.IsDigit(rune(s[j])) || s[j] == '_' || s[j] == '$') {
				j++
			}
			toks = append(toks, ctoken{"ident", s[i:j]})
			i = j
		case unicode.IsDigit(c):
			j := i
			isReal := false
			if strings.HasPrefix(s[i:], "0x") {
				j = i + 2
				for j < len(s) && strings.ContainsRune("0123456789abcdefABCDEF", rune(s[j])) {
					j++
				}
			} else {
				for j < len(s) && (unicode.IsDigit(rune(s[j])) || (s[j] == '.' && j+1 < len(s) && unicode.IsDigit(rune(s[j+1])))) {
					if s[j] == '.' {
						isReal = true
					}
					j++
				}
			}
			if isReal {
				toks = append(toks, ctoken{"real", s[i:j]})
			} else {
				toks = append(toks, ctoken{"int", s[i:j]})
			}
			i = j
		case c == '"':
			j := i + 1
			for j < len(s) && s[j] != '"' {
				j++
			}
			if j >= len(s) {
				return nil, fmt.Errorf("unterminated string in %q", s)
			}
			toks = append(toks, ctoken{"str", s[i+1 : j]})
			i = j + 1
		default:
			ops := []string{"<==>", "==>", "::", "==", "!=", "<=", ">=", "&&", "||", "<<", ">>", "+", "-", "*", "/", "%", "<", ">", "!", "(", ")", "[", "]", ".", ",", ":", "?", "&", "|", "^"}
			matched := false
			for _, op := range ops {
				if strings.HasPrefix(s[i:], op) {
					toks = append(toks, ctoken{"op", op})
					i += len(op)
					matched = true
					break
				}
			}
			if !matched {
				return nil, fmt.Errorf("unexpected character %q in %q", c, s)
			}
		}
	}
	toks = append(toks, ctoken{"eof", ""})
	return toks, nil
}

type exprParser struct {
	toks []ctoken
	pos  int
	src  string
}

func ParseExpr(s string) (e Expr, err error) {
	toks, err := lexExpr(s)
	if err != nil {
		return nil, err
	}
	p := &exprParser{toks: toks, src: s}
	defer func() {
		if r := recover(); r != nil {
			if pe, ok := r.(parseErr); ok {
				err = fmt.Errorf("%s in %q", string(pe), s)
				return
			}
			panic(r)
		}
	}()
	e = p.parseIff()
	if p.peek().kind != "eof" {
		p.fail("trailing tokens at " + p.peek().text)
	}
	return e, nil
}

type parseErr string

func (p *exprParser) fail(msg string)  { panic(parseErr(msg)) }
func (p *exprParser) peek() ctoken     { return p.toks[p.pos] }
func (p *exprParser) next() ctoken     { t := p.toks[p.pos]; p.pos++; return t }
func (p *exprParser) isOp(s string) bool { t := p.peek(); return t.kind == "op" && t.text == s }
func (p *exprParser) accept(s string) bool {
	if p.isOp(s) {
		p.pos++
		return true
	}
	return false
}
func (p *exprParser) expect(s string) {
	if !p.accept(s) {
		p.fail("expected " + s + " got " + p.peek().text)
	}
}

func (p *exprParser) parseIff() Expr {
	l := p.parseImplies()
	for p.accept("<==>") {
		r := p.parseImplies()
		l = EBinary{"<==>", l, r}
	}
	return l
}

func (p *exprParser) parseImplies() Expr {
	l := p.parseCond()
	if p.accept("==>") {
		r := p.parseImplies()
		return EBinary{"==>", l, r}
	}
	return l
}

func (p *exprParser) parseCond() Expr {
	c := p.parseOr()
	if p.accept("?") {
		a := p.parseCond()
		p.expect(":")
		b := p.parseCond()
		return ECond{c, a, b}
	}
	return c
}

func (p *exprParser) parseOr() Expr {
	l := p.parseAnd()
	for p.accept("||") {
		l = EBinary{"||", l, p.parseAnd()}
	}
	return l
}

func (p *exprParser) parseAnd() Expr {
	l := p.parseCmp()
	for p.accept("&&") {
		l = EBinary{"&&", l, p.parseCmp()}
	}
	return l
}

func (p *exprParser) parseCmp() Expr {
	l := p.parseAdd()
	for {
		t := p.peek()
		if t.kind == "op" && (t.text == "==" || t.text == "!=" || t.text == "<" || t.text == "<=" || t.text == ">" || t.text == ">=") {
			p.pos++
			r := p.parseAdd()
			// chained comparisons a <= b < c
			n := EBinary{t.text, l, r}
			t2 := p.peek()
			if t2.kind == "op" && (t2.text == "<" || t2.text == "<=" || t2.text == ">" || t2.text == ">=") {
				p.pos++
				r2 := p.parseAdd()
				return EBinary{"&&", n, EBinary{t2.text, r, r2}}
			}
			return n
		}
		return l
	}
}

func (p *exprParser) parseAdd() Expr {
	l := p.parseMul()
	for {
		t := p.peek()
		if t.kind == "op" && (t.text == "+" || t.text == "-" || t.text == "|" || t.text == "^") {
			p.pos++
			l = EBinary{t.text, l, p.parseMul()}
			continue
		}
		return l
	}
}

func (p *exprParser) parseMul() Expr {
	l := p.parseUnary()
	for {
		t := p.peek()
		if t.kind == "op" && (t.text == "*" || t.text == "/" || t.text == "%" || t.text == "<<" || t.text == ">>" || t.text == "&") {
			p.pos++
			l = EBinary{t.text, l, p.parseUnary()}
			continue
		}
		return l
	}
}

func (p *exprParser) parseUnary() Expr {
	if p.accept("!") {
		return EUnary{"!", p.parseUnary()}
	}
	if p.accept("-") {
		return EUnary{"-", p.parseUnary()}
	}
	return p.parsePostfix()
}

func (p *exprParser) parsePostfix() Expr {
	x := p.parsePrimary()
	for {
		switch {
		case p.accept("."):
			t := p.next()
			if t.kind != "ident" {
				p.fail("expected field name")
			}
			x = EField{x, t.text}
		case p.accept("["):
			if p.accept(":") {
				hi := p.parseIff()
				p.expect("]")
				x = ESlice{x, nil, hi}
				continue
			}
			i := p.parseIff()
			if p.accept(":") {
				if p.accept("]") {
					x = ESlice{x, i, nil}
					continue
				}
				hi := p.parseIff()
				p.expect("]")
				x = ESlice{x, i, hi}
				continue
			}
			p.expect("]")
			x = EIndex{x, i}
		default:
			return x
		}
	}
}

func (p *exprParser) parsePrimary() Expr {
	t := p.next()
	switch t.kind {
	case "int":
		v, err := strconv.ParseInt(t.text, 0, 64)
		if err != nil {
			u, err2 := strconv.ParseUint(t.text, 0, 64)
			if err2 != nil {
				p.fail("bad int " + t.text)
			}
			v = int64(u)
		}
		return EInt{v}
	case "real":
		return EReal{t.text}
	case "str":
		return EStr{t.text}
	case "ident":
		switch t.text {
		case "true":
			return EBool{true}
		case "false":
			return EBool{false}
		case "nil":
			return ENil{}
		case "forall", "exists":
			var vars []QVar
			for {
				n := p.next()
				if n.kind != "ident" {
					p.fail("expected bound variable")
				}
				p.expect(":")
				ty := p.next()
				if ty.kind != "ident" {
					p.fail("expected type of bound variable")
				}
				vars = append(vars, QVar{n.text, ty.text})
				if !p.accept(",") {
					break
				}
			}
			p.expect("::")
			body := p.parseIff()
			return EQuant{t.text == "forall", vars, body}
		}
		if p.accept("(") {
			var args []Expr
			if !p.accept(")") {
				for {
					args = append(args, p.parseIff())
					if p.accept(")") {
						break
					}
					p.expect(",")
				}
			}
			return ECall{t.text, args}
		}
		return EIdent{t.text}
	case "op":
		switch t.text {
		case "(":
			e := p.parseIff()
			p.expect(")")
			return e
		case "[":
			var elems []Expr
			if !p.accept("]") {
				for {
					elems = append(elems, p.parseIff())
					if p.accept("]") {
						break
					}
					p.expect(",")
				}
			}
			return ESeqLit{elems}
		}
	}
	p.fail("unexpected token " + t.text)
	return nil
}

// ---------------------------------------------------------------------------
// Contract file structure
// ---------------------------------------------------------------------------

type Clause struct {
	Kind  string   // requires ensures modifies panics ...
	Props []string // property tags on the clause, e.g. ensures[C05,C07]
	Name  string   // optional label:  ensures fifo: <expr>
	Text  string
	E     Expr
	Line  int
}

type LoopSpec struct {
	Ordinal    int
	Invariants []*Clause
	Decreases  *Clause
	Modifies   []string // extra havoc names
	EntryAssume []*Clause // facts about external (unmodelled) results, assumed at loop entry and listed
}

type FuncContract struct {
	Key       string // e.g. "(*Queue).popFront", "mergeSort", "(*Queue).Producer$1"
	Pkg       string
	Props     []string
	Mode      string // "int" | "bv"
	Requires  []*Clause
	Ensures   []*Clause
	Modifies  []*Clause
	Panics    []*Clause // "panics when <expr>"
	Loops     map[int]*LoopSpec
	Inline    bool
	Trusted   bool // contract assumed, body not verified (must be listed)
	NoBody    bool
	Implements string
	Pure      bool
	Options   map[string]string
	GhostSets []*Clause // "ghostset x.f = expr" applied at exit
	EnsuresPanic []*Clause
	GhostAlls    []*Clause // "ghostall S.f(x) = expr": pointwise redefinition of a ghost field at exit
	Callbacks    []*CallbackDecl // "callback param iface.contract(ghostargs)": contract of a function-typed parameter
	File      string
	Line      int
}

// CallbackDecl: a function-typed parameter (or captured variable) obeys a
// named callback contract (an `iface` block); Args are the values of that
// contract's ghost parameters (option ghostparams) in the callee's terms.
type CallbackDecl struct {
	Param string
	Iface string
	Args  []Expr
	Text  string
}

type PredDef struct {
	Name   string
	Params []QVar // name + type text
	Ret    string // "bool" default, or int / seq / ref
	Body   Expr
	Text   string
	Pkg    string
}

type GhostField struct {
	Struct string // e.g. "Queue"
	Name   string
	Type   string // int, bool, ref, seq
	Pkg    string
}

type GuardDecl struct {
	Struct string
	Fields []string
	Mutex  string // field path of the mutex in the same struct, e.g. "mu", or "owner"
	Pkg    string
}

type ContractFile struct {
	Pkg     string
	Funcs   map[string]*FuncContract
	Preds   map[string]*PredDef
	Ghosts  []*GhostField
	Guards  []*GuardDecl
	Axioms  []*Clause
	Ifaces  map[string]*FuncContract // "queueLimitTracker.add"
	LockInv map[string][]*Clause     // "Queue.mu(q)" -> invariants over the named receiver
	Raw     map[string][]string
}

type ContractSet struct {
	Files map[string]*ContractFile // by package path suffix
}

func splitClauseHead(rest string) (kind string, props []string, tail string) {
	rest = strings.TrimSpace(rest)
	i := 0
	for i < len(rest) && (unicode.IsLetter(rune(rest[i])) || rest[i] == '-' || rest[i] == '_') {
		i++
	}
	kind = rest[:i]
	tail = rest[i:]
	if strings.HasPrefix(tail, "[") {
		j := strings.IndexByte(tail, ']')
		if j > 0 {
			for _, p := range strings.Split(tail[1:j], ",") {
				props = append(props, strings.TrimSpace(p))
			}
			tail = tail[j+1:]
		}
	}
	return kind, props, strings.TrimSpace(tail)
}

func parseClause(kind string, props []string, text string, line int) (*Clause, error) {
	c := &Clause{Kind: kind, Props: props, Text: text, Line: line}
	// optional label "name: expr" where name is an identifier followed by ':' but not '::'
	if i := strings.Index(text, ":"); i > 0 && !strings.HasPrefix(text[i:], "::") {
		lbl := strings.TrimSpace(text[:i])
		isIdent := lbl != ""
		for _, ch := range lbl {
			if !(unicode.IsLetter(ch) || unicode.IsDigit(ch) || ch == '_' || ch == '-') {
				isIdent = false
			}
		}
		if isIdent && lbl != "forall" && lbl != "exists" {
			c.Name = lbl
			text = strings.TrimSpace(text[i+1:])
			c.Text = text
		}
	}
	e, err := ParseExpr(text)
	if err != nil {
		return nil, fmt.Errorf("line %d: %v", line, err)
	}
	c.E = e
	return c, nil
}

func parseParams(s string) ([]QVar, error) {
	s = strings.TrimSpace(s)
	if s == "" {
		return nil, nil
	}
	var out []QVar
	for _, part := range strings.Split(s, ",") {
		part = strings.TrimSpace(part)
		fs := strings.Fields(part)
		if len(fs) != 2 {
			return nil, fmt.Errorf("bad parameter %q", part)
		}
		out = append(out, QVar{fs[0], fs[1]})
	}
	return out, nil
}

// ParseContractFile reads the //@ lines of one file.
func ParseContractFile(path string, pkg string) (*ContractFile, error) {
	data, err := os.ReadFile(path)
	if err != nil {
		return nil, err
	}
	cf := &ContractFile{Pkg: pkg, Funcs: map[string]*FuncContract{}, Preds: map[string]*PredDef{}, Ifaces: map[string]*FuncContract{}, LockInv: map[string][]*Clause{}, Raw: map[string][]string{}}
	var cur *FuncContract
	var lastClause *Clause
	var lastPred *PredDef
	lines := strings.Split(string(data), "\n")
	// join continuation lines: "//@ | more text"
	type ln struct {
		text string
		no   int
	}
	var joined []ln
	for i, l := range lines {
		t := strings.TrimSpace(l)
		if !strings.HasPrefix(t, "//@") {
			continue
		}
		body := strings.TrimSpace(t[3:])
		if body == "" || strings.HasPrefix(body, "#") {
			continue
		}
		if strings.HasPrefix(body, "|") && len(joined) > 0 {
			joined[len(joined)-1].text += " " + strings.TrimSpace(body[1:])
			continue
		}
		joined = append(joined, ln{body, i + 1})
	}
	_ = lastClause
	_ = lastPred
	for _, l := range joined {
		kind, props, tail := splitClauseHead(l.text)
		fail := func(err error) error { return fmt.Errorf("%s:%d: %v", filepath.Base(path), l.no, err) }
		switch kind {
		case "func", "iface":
			cur = &FuncContract{Key: tail, Pkg: pkg, Mode: "int", Loops: map[int]*LoopSpec{}, Options: map[string]string{}, File: path, Line: l.no}
			if kind == "func" {
				if _, dup := cf.Funcs[tail]; dup {
					return nil, fail(fmt.Errorf("duplicate contract for %s", tail))
				}
				cf.Funcs[tail] = cur
			} else {
				cur.NoBody = true
				cf.Ifaces[tail] = cur
			}
		case "ghost":
			// ghost Queue.view seq
			fs := strings.Fields(tail)
			if len(fs) != 2 || !strings.Contains(fs[0], ".") {
				return nil, fail(fmt.Errorf("ghost wants Struct.name type"))
			}
			sp := strings.SplitN(fs[0], ".", 2)
			cf.Ghosts = append(cf.Ghosts, &GhostField{Struct: sp[0], Name: sp[1], Type: fs[1], Pkg: pkg})
			cur = nil
		case "pred":
			// pred name(a T, b U) ret = expr
			eq := strings.Index(tail, "=")
			// find the '=' that is not part of ==, <=, >=, != : take first " = "
			eq = strings.Index(tail, " = ")
			if eq < 0 {
				return nil, fail(fmt.Errorf("pred wants name(params) [ret] = expr"))
			}
			head := strings.TrimSpace(tail[:eq])
			body := strings.TrimSpace(tail[eq+3:])
			op := strings.Index(head, "(")
			cp := strings.LastIndex(head, ")")
			if op < 0 || cp < op {
				return nil, fail(fmt.Errorf("pred wants name(params)"))
			}
			params, err := parseParams(head[op+1 : cp])
			if err != nil {
				return nil, fail(err)
			}
			ret := strings.TrimSpace(head[cp+1:])
			if ret == "" {
				ret = "bool"
			}
			e, err := ParseExpr(body)
			if err != nil {
				return nil, fail(err)
			}
			pd := &PredDef{Name: strings.TrimSpace(head[:op]), Params: params, Ret: ret, Body: e, Text: body, Pkg: pkg}
			cf.Preds[pd.Name] = pd
			cur = nil
		case "guarded":
			// guarded Queue.{tracker,closed} by mu
			by := strings.Index(tail, " by ")
			if by < 0 {
				return nil, fail(fmt.Errorf("guarded wants Struct.{f,g} by mutexfield"))
			}
			lhs := strings.TrimSpace(tail[:by])
			mu := strings.TrimSpace(tail[by+4:])
			dot := strings.Index(lhs, ".")
			if dot < 0 {
				return nil, fail(fmt.Errorf("guarded wants Struct.{f,g}"))
			}
			st := lhs[:dot]
			fl := strings.Trim(lhs[dot+1:], "{}")
			g := &GuardDecl{Struct: st, Mutex: mu, Pkg: pkg}
			for _, f := range strings.Split(fl, ",") {
				g.Fields = append(g.Fields, strings.TrimSpace(f))
			}
			cf.Guards = append(cf.Guards, g)
			cur = nil
		case "axiom":
			c, err := parseClause("axiom", props, tail, l.no)
			if err != nil {
				return nil, fail(err)
			}
			cf.Axioms = append(cf.Axioms, c)
			cur = nil
		case "lockinv":
			// lockinv Queue.mu(q) = expr
			eq := strings.Index(tail, " = ")
			if eq < 0 {
				return nil, fail(fmt.Errorf("lockinv wants Struct.mutex(recv) = expr"))
			}
			head := strings.TrimSpace(tail[:eq])
			c, err := parseClause("lockinv", props, strings.TrimSpace(tail[eq+3:]), l.no)
			if err != nil {
				return nil, fail(err)
			}
			c.Name = head
			cf.LockInv[head] = append(cf.LockInv[head], c)
			cur = nil
		case "props":
			if cur == nil {
				return nil, fail(fmt.Errorf("props outside func"))
			}
			for _, p := range strings.FieldsFunc(tail, func(r rune) bool { return r == ',' || r == ' ' }) {
				cur.Props = append(cur.Props, p)
			}
		case "mode":
			if cur == nil {
				return nil, fail(fmt.Errorf("mode outside func"))
			}
			cur.Mode = tail
		case "inline":
			cur.Inline = true
		case "trusted":
			cur.Trusted = true
			cur.Options["trusted-reason"] = tail
		case "pure":
			cur.Pure = true
		case "implements":
			cur.Implements = tail
		case "option":
			fs := strings.SplitN(tail, " ", 2)
			if len(fs) == 2 {
				cur.Options[fs[0]] = strings.TrimSpace(fs[1])
			} else {
				cur.Options[fs[0]] = "true"
			}
		case "callback":
			if cur == nil {
				return nil, fail(fmt.Errorf("callback outside func"))
			}
			fs := strings.SplitN(tail, " ", 2)
			if len(fs) != 2 {
				return nil, fail(fmt.Errorf("callback wants: callback <param> <contract>(<ghost args>)"))
			}
			spec := strings.TrimSpace(fs[1])
			cb := &CallbackDecl{Param: fs[0], Text: tail}
			if op := strings.Index(spec, "("); op >= 0 && strings.HasSuffix(spec, ")") {
				cb.Iface = strings.TrimSpace(spec[:op])
				for _, a := range splitTopLevel(spec[op+1:len(spec)-1], ',') {
					if a = strings.TrimSpace(a); a != "" {
						e, err := ParseExpr(a)
						if err != nil {
							return nil, fail(err)
						}
						cb.Args = append(cb.Args, e)
					}
				}
			} else {
				cb.Iface = spec
			}
			cur.Callbacks = append(cur.Callbacks, cb)
		case "ghostall":
			if cur == nil {
				return nil, fail(fmt.Errorf("ghostall outside func"))
			}
			eq := strings.Index(tail, " = ")
			if eq < 0 {
				return nil, fail(fmt.Errorf("ghostall wants S.f(x) = expr"))
			}
			c, err := parseClause("ghostall", props, strings.TrimSpace(tail[eq+3:]), l.no)
			if err != nil {
				return nil, fail(err)
			}
			c.Name = strings.TrimSpace(tail[:eq])
			cur.GhostAlls = append(cur.GhostAlls, c)
		case "requires", "ensures", "modifies", "panics", "ghostset", "ensures-panic":
			if cur == nil {
				return nil, fail(fmt.Errorf("%s outside func", kind))
			}
			if kind == "modifies" {
				for _, m := range splitTopLevel(tail, ',') {
					c, err := parseClause(kind, props, strings.TrimSpace(m), l.no)
					if err != nil {
						return nil, fail(err)
					}
					cur.Modifies = append(cur.Modifies, c)
				}
				continue
			}
			if kind == "panics" {
				tail = strings.TrimSpace(strings.TrimPrefix(tail, "when"))
			}
			if kind == "ghostset" {
				// ghostset x.f = expr  -> keep as binary "==" with Kind ghostset
				eq := strings.Index(tail, " = ")
				if eq < 0 {
					return nil, fail(fmt.Errorf("ghostset wants loc = expr"))
				}
				tail = tail[:eq] + " == (" + tail[eq+3:] + ")"
			}
			c, err := parseClause(kind, props, tail, l.no)
			if err != nil {
				return nil, fail(err)
			}
			switch kind {
			case "requires":
				cur.Requires = append(cur.Requires, c)
			case "ensures":
				cur.Ensures = append(cur.Ensures, c)
			case "panics":
				cur.Panics = append(cur.Panics, c)
			case "ghostset":
				cur.GhostSets = append(cur.GhostSets, c)
			case "ensures-panic":
				cur.EnsuresPanic = append(cur.EnsuresPanic, c)
			}
		case "loop":
			if cur == nil {
				return nil, fail(fmt.Errorf("loop outside func"))
			}
			fs := strings.SplitN(tail, " ", 3)
			if len(fs) < 3 {
				return nil, fail(fmt.Errorf("loop wants: loop <k> invariant|decreases <expr>"))
			}
			k, err := strconv.Atoi(fs[0])
			if err != nil {
				return nil, fail(err)
			}
			ls := cur.Loops[k]
			if ls == nil {
				ls = &LoopSpec{Ordinal: k}
				cur.Loops[k] = ls
			}
			sub, sprops, stail := splitClauseHead(fs[1] + " " + fs[2])
			if len(sprops) == 0 {
				sprops = props
			}
			switch sub {
			case "invariant":
				c, err := parseClause("invariant", sprops, stail, l.no)
				if err != nil {
					return nil, fail(err)
				}
				ls.Invariants = append(ls.Invariants, c)
			case "entry-assume":
				c, err := parseClause("entry-assume", sprops, stail, l.no)
				if err != nil {
					return nil, fail(err)
				}
				ls.EntryAssume = append(ls.EntryAssume, c)
			case "decreases":
				c, err := parseClause("decreases", sprops, stail, l.no)
				if err != nil {
					return nil, fail(err)
				}
				ls.Decreases = c
			case "modifies":
				for _, m := range strings.Split(stail, ",") {
					ls.Modifies = append(ls.Modifies, strings.TrimSpace(m))
				}
			default:
				return nil, fail(fmt.Errorf("unknown loop clause %q", sub))
			}
		default:
			cf.Raw[kind] = append(cf.Raw[kind], tail)
		}
	}
	return cf, nil
}

func splitTopLevel(s string, sep rune) []string {
	var out []string
	depth := 0
	last := 0
	for i, c := range s {
		switch c {
		case '(', '[', '{':
			depth++
		case ')', ']', '}':
			depth--
		default:
			if c == sep && depth == 0 {
				out = append(out, s[last:i])
				last = i + 1
			}
		}
	}
	out = append(out, s[last:])
	return out
}
