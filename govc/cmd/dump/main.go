

package main

import (
	"fmt"
	"os"
	"strings"

	"golang.org/x/tools/go/packages"
	"golang.org/x/tools/go/ssa"
	"golang.org/x/tools/go/ssa/ssautil"
)

func main() {
	cfg := &packages.Config{Mode: packages.LoadAllSyntax, Dir: "/repo", BuildFlags: []string{"-tags=verif"}}
	pkgs, err := packages.Load(cfg, os.Args[1])
	if err != nil {
		panic(err)
	}
	prog, spkgs := ssautil.AllPackages(pkgs, ssa.GlobalDebug)
	prog.Build()
	for _, p := range spkgs {
		if p == nil {
			continue
		}
		fns := ssautil.AllFunctions(prog)
		for fn := range fns {
			if fn.Pkg != p {
				continue
			}
			for _, want := range os.Args[2:] {
				if strings.Contains(fn.String(), want) {
					fmt.Println("=====", fn.String(), fn.RelString(p.Pkg))
					fn.WriteTo(os.Stdout)
				}
			}
		}
	}
}
