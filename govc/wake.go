package main

import (
	"go/token"
	"go/types"
	"strings"
)

// Wake-up accounting (DESIGN 5.4). Declarations:
//
//	//@ waitkind Queue.nempty take wNE sNE = len(q.view) > 0 || q.closed
//
// declares that goroutines of kind "take" park on Queue.nempty; ghost ints
// wNE / sNE count parked-and-not-notified / notified-and-not-yet-running
// waiters of that kind; the expression is the kind's enabling condition over
// the receiver name of the lock invariant. A function that parks names its
// kind with "option waitkind take".

type waitKind struct {
	pkg, strct, cond, kind string
	wField, sField         string
	enabled                Expr
}

func (P *Program) waitKinds() map[string][]*waitKind {
	if P.wkinds != nil {
		return P.wkinds
	}
	P.wkinds = map[string][]*waitKind{}
	for short, cf := range P.Contracts {
		for _, raw := range cf.Raw["waitkind"] {
			eq := strings.Index(raw, " = ")
			if eq < 0 {
				continue
			}
			fs := strings.Fields(raw[:eq])
			if len(fs) != 4 {
				continue
			}
			sp := strings.SplitN(fs[0], ".", 2)
			if len(sp) != 2 {
				continue
			}
			e, err := ParseExpr(strings.TrimSpace(raw[eq+3:]))
			if err != nil {
				continue
			}
			key := short + "." + sp[0] + "." + sp[1]
			P.wkinds[key] = append(P.wkinds[key], &waitKind{pkg: short, strct: sp[0], cond: sp[1], kind: fs[1], wField: fs[2], sField: fs[3], enabled: e})
		}
	}
	return P.wkinds
}

func (x *Exec) kindsOf(cv TV) []*waitKind {
	if cv.Org == nil {
		return nil
	}
	tn, fn := orgKey(cv.Org)
	return x.P.waitKinds()[tn+"."+fn]
}

func (x *Exec) ghostIntLoc(st *State, styp types.Type, field string, obj Term) (string, Term) {
	g := x.ghostField(typeName(styp), field)
	if g == nil {
		unsupported("wake counter %s is not a declared ghost field of %s", field, typeName(styp))
	}
	name := ghostArrName(g)
	return name, x.heapGet(st, name, SArr(SInt, x.ghostSort(g.Type)))
}

func (x *Exec) wakeNotify(cfg *Config, cv TV, all bool, pos token.Pos) {
	kinds := x.kindsOf(cv)
	if len(kinds) == 0 {
		return
	}
	st := cfg.st
	obj := cv.Org.Base
	one := x.intLit(1, x.idxSort())
	zero := x.intLit(0, x.idxSort())
	if all {
		for _, k := range kinds {
			wn, wa := x.ghostIntLoc(st, cv.Org.STyp, k.wField, obj)
			w := Select(wa, obj)
			sn, sa := x.ghostIntLoc(st, cv.Org.STyp, k.sField, obj)
			st.heap[sn] = Store(sa, obj, Add(Select(sa, obj), w))
			_, wa = x.ghostIntLoc(st, cv.Org.STyp, k.wField, obj)
			st.heap[wn] = Store(wa, obj, zero)
		}
		return
	}
	// Signal: one parked waiter of an arbitrary kind (if any) is notified
	ch := x.d.Fresh("signalled-kind", SInt)
	var some, none []Term
	for i, k := range kinds {
		_, wa := x.ghostIntLoc(st, cv.Org.STyp, k.wField, obj)
		w := Select(wa, obj)
		some = append(some, And(Eq(ch, IntLit(int64(i))), Gt(w, zero)))
		none = append(none, Le(w, zero))
	}
	st.assume(Or(Or(some...), And(none...)))
	for i, k := range kinds {
		wn, wa := x.ghostIntLoc(st, cv.Org.STyp, k.wField, obj)
		w := Select(wa, obj)
		sn, sa := x.ghostIntLoc(st, cv.Org.STyp, k.sField, obj)
		pick := And(Eq(ch, IntLit(int64(i))), Gt(w, zero))
		st.heap[wn] = Store(wa, obj, Ite(pick, Sub(w, one), w))
		st.heap[sn] = Store(sa, obj, Ite(pick, Add(Select(sa, obj), one), Select(sa, obj)))
	}
}

// kindOf: the waiter kind a path is verified for: the kind chosen for this
// path when the contract lists several (option waitkinds a b), else the
// function's single kind (option waitkind a).
func (x *Exec) kindOf(cfg *Config) string {
	if cfg != nil && cfg.kind != "" {
		return cfg.kind
	}
	if x.c != nil {
		return x.c.Options["waitkind"]
	}
	return ""
}

func (x *Exec) myKind(cfg *Config, cv TV, pos token.Pos) *waitKind {
	kinds := x.kindsOf(cv)
	if len(kinds) == 0 {
		return nil
	}
	want := x.kindOf(cfg)
	for _, k := range kinds {
		if k.kind == want {
			return k
		}
	}
	if want == "" {
		unsupported("function parks on %s.%s but names no declared waitkind (option waitkind ...)", kinds[0].strct, kinds[0].cond)
	}
	// this kind of waiter is not declared to park on this condition variable:
	// the park must be unreachable
	x.oblige(cfg, "park-on-undeclared-cond", kinds[0].strct+"."+kinds[0].cond+"/"+want, False, []string{"C07"}, pos)
	return nil
}

func (x *Exec) wakePark(cfg *Config, cv TV, ld *lockDecl, o *origin, pos token.Pos) {
	k := x.myKind(cfg, cv, pos)
	if k == nil {
		return
	}
	st := cfg.st
	env := x.lockEnv(cfg, ld, o)
	en := x.specBool(env, k.enabled)
	// a waiter must not park while its condition already holds
	x.oblige(cfg, "park-while-enabled", k.strct+"."+k.cond+"/"+k.kind+": "+k.enabled.exprString(), Not(en), []string{"C07"}, pos)
	// per-waiter condition (e.g. an iterator's cursor has no successor yet):
	// "option park-requires <expr>" over the function's own variables
	if x.c != nil && x.c.Options["park-requires"] != "" && len(cfg.frames) > 0 {
		pe, err := ParseExpr(x.c.Options["park-requires"])
		if err != nil {
			unsupported("option park-requires: %v", err)
		}
		penv := x.entryEnv(cfg)
		penv.frame = cfg.frames[0]
		penv.old = cfg.old
		x.oblige(cfg, "park-requires", x.c.Options["park-requires"], x.specBool(penv, pe), nil, pos)
	}
	wn, wa := x.ghostIntLoc(st, cv.Org.STyp, k.wField, cv.Org.Base)
	st.heap[wn] = Store(wa, cv.Org.Base, Add(Select(wa, cv.Org.Base), x.intLit(1, x.idxSort())))
}

func (x *Exec) wakeResume(cfg *Config, cv TV, ld *lockDecl, o *origin, pos token.Pos) {
	k := x.myKind(cfg, cv, pos)
	if k == nil {
		return
	}
	st := cfg.st
	sn, sa := x.ghostIntLoc(st, cv.Org.STyp, k.sField, cv.Org.Base)
	s := Select(sa, cv.Org.Base)
	// this goroutine was notified: it is one of the counted pending wake-ups
	st.assume(Ge(s, x.intLit(1, x.idxSort())))
	st.heap[sn] = Store(sa, cv.Org.Base, Sub(s, x.intLit(1, x.idxSort())))
	if x.c != nil && x.c.Options["old"] == "section" {
		cfg.old = cfg.st.clone()
		x.resnapLoopGhost(cfg)
	}
}
