package main

import (
	"bytes"
	"context"
	"fmt"
	"os"
	"os/exec"
	"path/filepath"
	"strings"
	"sync"
	"time"
)

type SolveResult struct {
	Status string // "unsat", "sat", "unknown", "timeout", "error"
	Solver string
	Time   float64
	Output string // solver stdout (model when sat)
	Tried  []string
}

var solverSem = make(chan struct{}, 16)

// wallFactor: wall-clock backstop as a multiple of the CPU-time limit.
const wallFactor = 6

type solverSpec struct {
	name string
	argv func(file string, timeoutS int) []string
}

var solvers = []solverSpec{
	{"z3-new", func(f string, t int) []string { return []string{"z3-new", fmt.Sprintf("-T:%d", t), "-smt2", f} }},
	// pure E-matching (no model-based quantifier instantiation, no automatic
	// configuration): decides many quantified heap obligations in well under a
	// second that the default configuration times out on
	{"z3-em", func(f string, t int) []string {
		return []string{"z3-new", fmt.Sprintf("-T:%d", t), "smt.auto_config=false", "smt.mbqi=false", "-smt2", f}
	}},
	{"z3", func(f string, t int) []string { return []string{"/usr/bin/z3", fmt.Sprintf("-T:%d", t), "-smt2", f} }},
	{"cvc5", func(f string, t int) []string {
		return []string{"cvc5", "-q", "--lang=smt2", fmt.Sprintf("--tlimit=%d", t*1000), f}
	}},
}

func runSolver(ctx context.Context, sp solverSpec, file string, timeoutS int) SolveResult {
	solverSem <- struct{}{}
	defer func() { <-solverSem }()
	if ctx.Err() != nil {
		return SolveResult{Status: "cancelled", Solver: sp.name}
	}
	// The limit is CPU time of the solver process (ulimit -t), so that a loaded
	// machine slows a check down instead of turning proofs into timeouts; the
	// wall-clock limits (the solver's own and the context's) are a multiple of
	// it and only a backstop.
	argv := sp.argv(file, timeoutS*wallFactor)
	cctx, cancel := context.WithTimeout(ctx, time.Duration(timeoutS*wallFactor+5)*time.Second)
	defer cancel()
	shargs := []string{"-c", fmt.Sprintf("ulimit -t %d; exec \"$@\"", timeoutS+1), "sh"}
	cmd := exec.CommandContext(cctx, "/bin/sh", append(shargs, argv...)...)
	var out, errb bytes.Buffer
	cmd.Stdout = &out
	cmd.Stderr = &errb
	start := time.Now()
	_ = cmd.Run()
	el := time.Since(start).Seconds()
	text := out.String()
	first := strings.TrimSpace(strings.SplitN(text, "\n", 2)[0])
	res := SolveResult{Solver: sp.name, Time: el, Output: text}
	switch first {
	case "unsat":
		res.Status = "unsat"
	case "sat":
		res.Status = "sat"
	case "unknown":
		res.Status = "unknown"
	case "timeout":
		res.Status = "timeout"
	default:
		if cctx.Err() != nil || cmd.ProcessState == nil || !cmd.ProcessState.Exited() {
			// killed: by the context or by the CPU-time limit (SIGXCPU/SIGKILL)
			res.Status = "timeout"
		} else {
			res.Status = "error"
			res.Output = text + errb.String()
		}
	}
	return res
}

// Solve decides a script: a fast first attempt with z3-new, then a race of all
// solvers. cvc5 does not accept model production placed after set-logic, and
// rejects some z3-isms; any solver error is simply ignored unless all fail.
func Solve(script string, dir string, name string, timeoutS int) SolveResult {
	file := filepath.Join(dir, name+".smt2")
	if err := os.WriteFile(file, []byte(script), 0o644); err != nil {
		return SolveResult{Status: "error", Output: err.Error()}
	}
	ctx := context.Background()
	quickT := 3
	if timeoutS < quickT {
		quickT = timeoutS
	}
	// stage 1: the two z3 5.x configurations, briefly
	var r SolveResult
	var tried []string
	{
		qctx, qcancel := context.WithCancel(ctx)
		qch := make(chan SolveResult, 2)
		for _, sp := range solvers[:2] {
			go func(sp solverSpec) { qch <- runSolver(qctx, sp, file, quickT) }(sp)
		}
		decided := false
		for k := 0; k < 2; k++ {
			rr := <-qch
			if rr.Status == "cancelled" {
				continue
			}
			tried = append(tried, fmt.Sprintf("%s:%s:%.2fs", rr.Solver, rr.Status, rr.Time))
			if !decided && (rr.Status == "unsat" || (rr.Status == "sat" && rr.Solver == "z3-new")) {
				decided = true
				r = rr
				qcancel()
			} else if !decided && k == 0 {
				r = rr
			}
		}
		qcancel()
		if decided {
			r.Tried = tried
			return r
		}
	}
	rctx, cancel := context.WithCancel(ctx)
	defer cancel()
	ch := make(chan SolveResult, len(solvers))
	var wg sync.WaitGroup
	for _, sp := range solvers {
		wg.Add(1)
		go func(sp solverSpec) {
			defer wg.Done()
			ch <- runSolver(rctx, sp, file, timeoutS)
		}(sp)
	}
	go func() { wg.Wait(); close(ch) }()
	best := r
	for rr := range ch {
		tried = append(tried, fmt.Sprintf("%s:%s:%.2fs", rr.Solver, rr.Status, rr.Time))
		if rr.Status == "unsat" || rr.Status == "sat" {
			cancel()
			rr.Tried = tried
			return rr
		}
		if best.Status == "error" || best.Status == "cancelled" {
			best = rr
		}
	}
	best.Tried = tried
	if best.Status == "error" {
		// all errored
		return best
	}
	if best.Status != "unknown" {
		best.Status = "timeout"
	}
	return best
}

// parseModel extracts (define-fun name () Sort value) entries from a z3 model.
func parseModel(out string) map[string]string {
	m := map[string]string{}
	lines := strings.Split(out, "\n")
	for i := 0; i < len(lines); i++ {
		l := strings.TrimSpace(lines[i])
		if !strings.HasPrefix(l, "(define-fun ") {
			continue
		}
		rest := l[len("(define-fun "):]
		var name string
		if strings.HasPrefix(rest, "|") {
			j := strings.IndexByte(rest[1:], '|')
			name = rest[:j+2]
			rest = rest[j+2:]
		} else {
			j := strings.IndexByte(rest, ' ')
			name = rest[:j]
			rest = rest[j:]
		}
		rest = strings.TrimSpace(rest)
		if !strings.HasPrefix(rest, "()") {
			continue
		}
		// value is either on this line or the next
		val := ""
		// strip sort: after "() Sort"
		after := strings.TrimSpace(rest[2:])
		// sort may be parenthesised
		sortEnd := 0
		if strings.HasPrefix(after, "(") {
			depth := 0
			for k, c := range after {
				if c == '(' {
					depth++
				} else if c == ')' {
					depth--
					if depth == 0 {
						sortEnd = k + 1
						break
					}
				}
			}
		} else {
			sortEnd = strings.IndexAny(after, " \t")
			if sortEnd < 0 {
				sortEnd = len(after)
			}
		}
		val = strings.TrimSpace(after[sortEnd:])
		if val == "" && i+1 < len(lines) {
			val = strings.TrimSpace(lines[i+1])
			i++
		}
		val = strings.TrimSuffix(val, ")")
		m[name] = strings.TrimSpace(val)
	}
	return m
}
