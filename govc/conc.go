package main

import (
	"go/token"

	"golang.org/x/tools/go/ssa"
)

// acquire / release are the hooks for lock invariants (filled in by the
// lock-invariant layer).
func (x *Exec) acquire(cfg *Config, m Term, pos token.Pos) {}
func (x *Exec) release(cfg *Config, m Term, pos token.Pos) {}

func (x *Exec) condNotify(cfg *Config, c Term, all bool, pos token.Pos) {}

func (x *Exec) condWait(cfg *Config, c Term, pos token.Pos) {
	unsupported("sync.Cond.Wait (wake-up layer not enabled for this function)")
}

func (x *Exec) spawn(cfg *Config, f *Frame, tg target, args []Val, pos token.Pos) {
	x.note("go statement at %s: spawned body %s is not verified as part of this function", x.posOf(pos), tg.name)
}

func (x *Exec) selectOp(cfg *Config, f *Frame, i *ssa.Select) ([]*Config, bool) {
	unsupported("select")
	return nil, true
}

func (x *Exec) sendOp(cfg *Config, f *Frame, i *ssa.Send) { unsupported("channel send") }

func (x *Exec) recvOp(cfg *Config, f *Frame, i *ssa.UnOp) Val {
	unsupported("channel receive")
	return nil
}

func (x *Exec) closeChan(cfg *Config, ch Term, pos token.Pos) { unsupported("close(chan)") }

// guardedAccess emits the held(mutex) obligation for accesses to guarded fields.
func (x *Exec) guardedAccess(cfg *Config, f *Frame, addr ssa.Value, write bool, pos token.Pos) {}
