package main

import (
	"fmt"
	"go/token"
	"go/types"
	"strings"

	"golang.org/x/tools/go/ssa"
)

// ---------------------------------------------------------------------------
// Lock declarations
// ---------------------------------------------------------------------------

type lockDecl struct {
	pkg, strct, field, recv string
	invs    []*Clause
	havoc   []Expr
	stutter Expr
	rely    Expr
	conds   map[string]bool // condition-variable fields tied to this mutex
}

// parseHead splits "Queue.mu(q)" into struct, field, receiver name.
func parseHead(h string) (strct, field, recv string, ok bool) {
	op := strings.Index(h, "(")
	cp := strings.Index(h, ")")
	dot := strings.Index(h, ".")
	if op < 0 || cp < op || dot < 0 || dot > op {
		return
	}
	return strings.TrimSpace(h[:dot]), strings.TrimSpace(h[dot+1 : op]), strings.TrimSpace(h[op+1 : cp]), true
}

func (P *Program) lockDecls() map[string]*lockDecl {
	if P.locks != nil {
		return P.locks
	}
	P.locks = map[string]*lockDecl{}
	for short, cf := range P.Contracts {
		for head, cls := range cf.LockInv {
			st, fl, rv, ok := parseHead(head)
			if !ok {
				continue
			}
			P.locks[short+"."+st+"."+fl] = &lockDecl{pkg: short, strct: st, field: fl, recv: rv, invs: cls, conds: map[string]bool{}}
		}
	}
	for short, cf := range P.Contracts {
		for _, raw := range cf.Raw["lockhavoc"] {
			eq := strings.Index(raw, " = ")
			if eq < 0 {
				continue
			}
			st, fl, _, ok := parseHead(raw[:eq])
			if !ok {
				continue
			}
			ld := P.locks[short+"."+st+"."+fl]
			if ld == nil {
				continue
			}
			for _, m := range splitTopLevel(raw[eq+3:], ',') {
				e, err := ParseExpr(strings.TrimSpace(m))
				if err == nil {
					ld.havoc = append(ld.havoc, e)
				}
			}
		}
		for _, raw := range cf.Raw["stutter"] {
			eq := strings.Index(raw, " = ")
			if eq < 0 {
				continue
			}
			st, fl, _, ok := parseHead(raw[:eq])
			if !ok {
				continue
			}
			if ld := P.locks[short+"."+st+"."+fl]; ld != nil {
				if e, err := ParseExpr(strings.TrimSpace(raw[eq+3:])); err == nil {
					ld.stutter = e
				}
			}
		}
		for _, raw := range cf.Raw["lockrely"] {
			eq := strings.Index(raw, " = ")
			if eq < 0 {
				continue
			}
			st, fl, _, ok := parseHead(raw[:eq])
			if !ok {
				continue
			}
			if ld := P.locks[short+"."+st+"."+fl]; ld != nil {
				if e, err := ParseExpr(strings.TrimSpace(raw[eq+3:])); err == nil {
					ld.rely = e
				}
			}
		}
		for _, raw := range cf.Raw["cond"] {
			// cond Queue.nempty lock mu
			fs := strings.Fields(raw)
			if len(fs) == 3 && fs[1] == "lock" {
				sp := strings.SplitN(fs[0], ".", 2)
				if len(sp) == 2 {
					if P.condLocks == nil {
						P.condLocks = map[string]string{}
					}
					P.condLocks[short+"."+sp[0]+"."+sp[1]] = fs[2]
				}
			}
		}
	}
	return P.locks
}

func orgKey(o *origin) (string, string) {
	name, _ := fieldNameOf(o.STyp, o.Field)
	return typeName(o.STyp), name
}

func fieldNameOf(styp types.Type, idx int) (string, types.Type) {
	s := styp.Underlying().(*types.Struct)
	return s.Field(idx).Name(), s.Field(idx).Type()
}

func (x *Exec) lockDeclFor(o *origin) *lockDecl {
	if o == nil {
		return nil
	}
	tn, fn := orgKey(o)
	return x.P.lockDecls()[tn+"."+fn]
}

func (x *Exec) lockEnv(cfg *Config, ld *lockDecl, o *origin) *SpecEnv {
	env := &SpecEnv{x: x, cfg: cfg, st: cfg.st, old: cfg.old, vars: map[string]SpecVal{}, pkg: x.pkgOf(ld.pkg), cf: x.P.Contracts[ld.pkg]}
	env.vars[ld.recv] = SpecVal{T: o.Base, Ty: types.NewPointer(o.STyp)}
	return env
}

// splitConj flattens an expression into its top-level conjuncts, expanding a
// single predicate call one level.
func (x *Exec) splitConj(env *SpecEnv, e Expr) []Expr {
	switch ee := e.(type) {
	case EBinary:
		if ee.Op == "&&" {
			return append(x.splitConj(env, ee.L), x.splitConj(env, ee.R)...)
		}
	}
	return []Expr{e}
}

// ---------------------------------------------------------------------------
// acquire / release / wait
// ---------------------------------------------------------------------------

func (x *Exec) interfere(cfg *Config) {
	st := cfg.st
	ep := x.ctxEpoch(st)
	st.heap["$epoch"] = Add(ep, IntLit(1))
}

// havocLock forgets everything the lock protects (other goroutines may have run).
func (x *Exec) havocLock(cfg *Config, ld *lockDecl, o *origin) {
	env := x.lockEnv(cfg, ld, o)
	c := &FuncContract{Pkg: ld.pkg}
	for _, h := range ld.havoc {
		// a field named by the lock declaration that no longer exists in the
		// tree cannot be accessed by the code either: skip it
		if !x.modEntryResolves(env, h) {
			x.note("lock declaration names %s, which does not resolve any more (skipped)", h.exprString())
			continue
		}
		c.Modifies = append(c.Modifies, &Clause{Kind: "modifies", E: h})
	}
	x.havocModifies(cfg, env, c)
}

// seedHeldLocks: a function that requires held(e.mu), where e is an
// expression over its parameters whose type has a lock invariant for mu,
// starts with that lock held.
func (x *Exec) seedHeldLocks(cfg *Config) {
	env := x.entryEnv(cfg)
	var visit func(e Expr, neg bool)
	visit = func(e Expr, neg bool) {
		switch ee := e.(type) {
		case EUnary:
			if ee.Op == "!" {
				visit(ee.X, !neg)
			}
		case EBinary:
			if ee.Op == "&&" {
				visit(ee.L, neg)
				visit(ee.R, neg)
			}
		case ECall:
			if ee.Fn != "held" || neg || len(ee.Args) != 1 {
				return
			}
			fe, ok := ee.Args[0].(EField)
			if !ok {
				return
			}
			base := x.spec(env, fe.X)
			if base.Ty == nil {
				return
			}
			el := derefType(base.Ty)
			if el == nil || !isStructType(el) {
				return
			}
			s := el.Underlying().(*types.Struct)
			for i := 0; i < s.NumFields(); i++ {
				if s.Field(i).Name() != fe.Name {
					continue
				}
				ld := x.P.lockDecls()[typeName(el)+"."+fe.Name]
				if ld == nil {
					return
				}
				for _, h := range cfg.heldLocks {
					if h.ld == ld && h.o.Base.S == base.T.S {
						return
					}
				}
				cfg.heldLocks = append(cfg.heldLocks, heldLock{ld, &origin{el, i, base.T}})
			}
		}
	}
	for _, r := range x.c.Requires {
		visit(r.E, false)
	}
}

func (x *Exec) enterSection(cfg *Config, ld *lockDecl, o *origin) {
	st := cfg.st
	env := x.lockEnv(cfg, ld, o)
	// havoc the guarded state: other goroutines may have run
	x.havocLock(cfg, ld, o)
	x.interfere(cfg)
	env.st = st
	for _, inv := range ld.invs {
		st.assume(x.specBool(env, inv.E))
	}
	if x.c != nil && x.c.Options["old"] == "section" {
		cfg.old = cfg.st.clone()
		x.resnapLoopGhost(cfg)
	}
}

func (x *Exec) leaveSection(cfg *Config, ld *lockDecl, o *origin, why string, pos token.Pos) {
	env := x.lockEnv(cfg, ld, o)
	for _, inv := range ld.invs {
		x.obligeInv(cfg, env, inv.E, "lockinv-"+why, ld.strct+"."+ld.field+": ", inv.Props, pos, 0)
	}
	if ld.rely != nil && x.c != nil && x.c.Options["old"] == "section" {
		// guarantee = rely: what this section did is something others may rely on
		x.oblige(cfg, "lock-guarantee", ld.strct+"."+ld.field+": "+ld.rely.exprString(), x.specBool(env, ld.rely), nil, pos)
	}
}

// obligeInv emits one obligation per conjunct, expanding predicate calls so
// that failing conjuncts are named.
func (x *Exec) obligeInv(cfg *Config, env *SpecEnv, e Expr, kind, prefix string, props []string, pos token.Pos, depth int) {
	for _, cj := range x.splitConj(env, e) {
		if call, ok := cj.(ECall); ok && depth < 2 {
			if pd := x.findPred(env, call.Fn); pd != nil && len(pd.Params) == len(call.Args) && pd.Ret == "bool" {
				penv := &SpecEnv{x: x, cfg: cfg, st: env.st, old: env.old, vars: map[string]SpecVal{}, pkg: x.pkgOf(pd.Pkg), cf: x.P.Contracts[pd.Pkg], depth: env.depth + 1, results: env.results}
				for k, p := range pd.Params {
					av := x.spec(env, call.Args[k])
					if p.Type != "seq" && p.Type != "int" && p.Type != "ref" && p.Type != "bool" && p.Type != "real" {
						if ty := x.resolveTypeText(penv, p.Type); ty != nil {
							av.Ty = ty
						}
					}
					penv.vars[p.Name] = av
				}
				x.obligeInv(cfg, penv, pd.Body, kind, prefix, props, pos, depth+1)
				continue
			}
		}
		if q, ok := cj.(EQuant); ok && depth < 2 {
			if parts := x.splitQuantGoal(env, q); parts != nil {
				for _, pe := range parts {
					x.oblige(cfg, kind, prefix+pe.exprString(), x.specBool(env, pe), props, pos)
				}
				continue
			}
		}
		x.oblige(cfg, kind, prefix+cj.exprString(), x.specBool(env, cj), props, pos)
	}
}

func (x *Exec) acquire(cfg *Config, mv Val, pos token.Pos) {
	tv, ok := mv.(TV)
	if !ok {
		return
	}
	if ld := x.lockDeclFor(tv.Org); ld != nil {
		x.enterSection(cfg, ld, tv.Org)
		cfg.heldLocks = append(cfg.heldLocks, heldLock{ld, tv.Org})
	} else {
		x.interfere(cfg)
	}
}

func (x *Exec) release(cfg *Config, mv Val, pos token.Pos) {
	tv, ok := mv.(TV)
	if !ok {
		return
	}
	if ld := x.lockDeclFor(tv.Org); ld != nil {
		if x.c != nil && x.c.Options["ghostsets-at-unlock"] == "true" && !cfg.ghostDone && !cfg.panicking {
			// the contract's ghost updates belong to the critical section:
			// apply them before the lock invariant is checked
			env := x.entryEnv(cfg)
			env.old = cfg.old
			env.frame = nil
			pre := cfg.st.clone()
			for _, gs := range x.c.GhostSets {
				x.applyGhostSetIn(cfg, env, gs, pre)
			}
			cfg.ghostDone = true
		}
		x.leaveSection(cfg, ld, tv.Org, "unlock", pos)
		for i, h := range cfg.heldLocks {
			if h.ld == ld && h.o.Base.S == tv.Org.Base.S {
				cfg.heldLocks = append(cfg.heldLocks[:i:i], cfg.heldLocks[i+1:]...)
				break
			}
		}
	}
}

// mutexOfCond finds the mutex (value and origin) a condition variable field
// is declared to use.
func (x *Exec) mutexOfCond(cfg *Config, cv TV) (TV, bool) {
	if cv.Org == nil {
		return TV{}, false
	}
	x.P.lockDecls()
	tn, fn := orgKey(cv.Org)
	mfield, ok := x.P.condLocks[tn+"."+fn]
	if !ok {
		return TV{}, false
	}
	s := cv.Org.STyp.Underlying().(*types.Struct)
	for i := 0; i < s.NumFields(); i++ {
		if s.Field(i).Name() != mfield {
			continue
		}
		if isStructType(s.Field(i).Type()) {
			return TV{T: x.subRef(cv.Org.STyp, i, cv.Org.Base), Org: &origin{cv.Org.STyp, i, cv.Org.Base}}, true
		}
		_, arr, _ := x.fieldArr(cfg.st, cv.Org.STyp, i)
		return TV{T: Select(arr, cv.Org.Base), Org: &origin{cv.Org.STyp, i, cv.Org.Base}}, true
	}
	return TV{}, false
}

func (x *Exec) condNotify(cfg *Config, cv Val, all bool, pos token.Pos) {
	tv, ok := cv.(TV)
	if !ok {
		return
	}
	x.wakeNotify(cfg, tv, all, pos)
}

func (x *Exec) condWait(cfg *Config, cv Val, pos token.Pos) {
	tv, ok := cv.(TV)
	if !ok {
		unsupported("cond.Wait on unknown condition variable")
	}
	m, ok := x.mutexOfCond(cfg, tv)
	if !ok {
		unsupported("cond.Wait: no `cond` declaration ties %s to a mutex", x.lockName(tv.T))
	}
	held := x.heldArr(cfg.st)
	x.oblige(cfg, "wait-holds-lock", x.lockName(m.T), Select(held, m.T), nil, pos)
	cfg.st.assume(Select(held, m.T))
	ld := x.lockDeclFor(m.Org)
	if ld == nil {
		unsupported("cond.Wait: mutex has no lock invariant")
	}
	x.wakePark(cfg, tv, ld, m.Org, pos)
	// a section that parks must not have had an effect (only the last section
	// of a blocking operation is its linearization point)
	if ld.stutter != nil {
		env := x.lockEnv(cfg, ld, m.Org)
		x.oblige(cfg, "stutter-before-wait", ld.strct+"."+ld.field+": "+ld.stutter.exprString(), x.specBool(env, ld.stutter), nil, pos)
	}
	x.leaveSection(cfg, ld, m.Org, "wait", pos)
	parkState := cfg.st.clone()
	x.enterSection(cfg, ld, m.Org)
	if ld.rely != nil {
		env := x.lockEnv(cfg, ld, m.Org)
		env.old = parkState
		cfg.st.assume(x.specBool(env, ld.rely))
	}
	x.wakeResume(cfg, tv, ld, m.Org, pos)
}


// ---------------------------------------------------------------------------
// goroutines, channels (minimal models)
// ---------------------------------------------------------------------------

// spawn: a goroutine whose body starts by blocking on channels (a receive or
// a blocking select) is remembered as a watcher; it is run, inline, when this
// function closes one of those channels or cancels the context whose Done
// channel it waits on. (Its effect is asynchronous in reality; for the ghost
// wake-up accounting a pending Broadcast counts as delivered. A watcher that
// becomes ready through an external event - the caller's context ending - can
// run at any time: that is interference, covered by the lock invariant.)
// Other goroutines are not followed.
func (x *Exec) spawn(cfg *Config, f *Frame, tg target, args []Val, pos token.Pos) {
	if tg.fn != nil && x.isWatcherShape(tg.fn) {
		cfg.st.watchers = append(cfg.st.watchers, &watcher{tg: tg, args: args})
		x.usedTrusted["goroutines that first block on a channel are modelled as running when this function closes that channel / cancels that context"] = true
		return
	}
	if x.c != nil && x.c.Options["spawn-requires"] != "" {
		// ghost accounting at the go statement (e.g. a WaitGroup increment
		// must have happened before the goroutine that will call Done starts)
		env := x.entryEnv(cfg)
		env.frame = nil
		env.old = cfg.old
		e, err := ParseExpr(x.c.Options["spawn-requires"])
		if err != nil {
			unsupported("option spawn-requires: %v", err)
		}
		x.oblige(cfg, "spawn-pre", tg.name+": "+x.c.Options["spawn-requires"], x.specBool(env, e), nil, pos)
		if gs := x.c.Options["spawn-ghost"]; gs != "" {
			eq := strings.Index(gs, " = ")
			cl, err := parseClause("ghostset", nil, gs[:eq]+" == ("+gs[eq+3:]+")", 0)
			if err != nil {
				unsupported("option spawn-ghost: %v", err)
			}
			x.applyGhostSet(cfg, env, cl)
		}
		if want := x.c.Options["spawn-body"]; want != "" && !strings.HasSuffix(tg.name, want) {
			x.oblige(cfg, "spawn-body", "spawned function is "+tg.name+", contract expects "+want, False, nil, pos)
		}
		x.spawned = append(x.spawned, tg.name)
		return
	}
	x.note("go statement at %s: spawned body %s is not verified as part of this function", x.posOf(pos), tg.name)
}

// isWatcherShape: a function literal whose first effectful instruction is a
// channel receive or a blocking select.
func (x *Exec) isWatcherShape(fn *ssa.Function) bool {
	if fn.Parent() == nil || len(fn.Blocks) == 0 {
		return false
	}
	for _, in := range fn.Blocks[0].Instrs {
		switch i := in.(type) {
		case *ssa.DebugRef, *ssa.FieldAddr, *ssa.Field, *ssa.Alloc, *ssa.MakeInterface, *ssa.ChangeType, *ssa.Extract:
		case *ssa.UnOp:
			if i.Op == token.ARROW {
				return true
			}
		case *ssa.Select:
			return i.Blocking
		case *ssa.Call:
			if !(i.Common().IsInvoke() && i.Common().Method.Name() == "Done") {
				return false
			}
		default:
			return false
		}
	}
	return false
}

// triggerWatchers: a channel was closed / a context cancelled by this
// function; every remembered goroutine gets a chance to run.
func (x *Exec) triggerWatchers(cfg *Config, f *Frame) {
	cfg.pendingW = nil
	for _, w := range cfg.st.watchers {
		if !w.ran {
			cfg.pendingW = append(cfg.pendingW, w)
		}
	}
	x.nextWatcher(cfg, f.depth)
}

func (x *Exec) nextWatcher(cfg *Config, depth int) {
	if len(cfg.pendingW) == 0 {
		return
	}
	w := cfg.pendingW[0]
	cfg.pendingW = cfg.pendingW[1:]
	w.ran = true
	body := w.tg.fn
	nf := &Frame{fn: body, regs: map[ssa.Value]Val{}, block: body.Blocks[0], depth: depth + 1, isDefer: true, watcher: w}
	x.indexDebug(body)
	for k, p := range body.Params {
		if k < len(w.args) {
			nf.regs[p] = w.args[k]
		}
	}
	for k, fv := range body.FreeVars {
		if k < len(w.tg.binds) {
			nf.regs[fv] = x.coerceParam(cfg, w.tg.binds[k], fv.Type())
		}
	}
	cfg.frames = append(cfg.frames, nf)
}

// abortWatcher: the goroutine's first blocking operation is not enabled by
// anything this function did; it stays parked.
func (x *Exec) abortWatcher(cfg *Config, f *Frame) {
	f.watcher.ran = false
	cfg.frames = cfg.frames[:len(cfg.frames)-1]
	x.nextWatcher(cfg, f.depth-1)
}

func (x *Exec) chanClosed(st *State, ch Term) Term {
	return Select(x.heapGet(st, "$closed", SArr(SInt, SBool)), ch)
}

// readyNow: can a receive from ch proceed because of something known on this
// path (closed by this function, or a context cancelled by this function)?
func (x *Exec) readyNow(cfg *Config, ch Term) Term {
	if strings.HasPrefix(ch.S, "(ctx.donechan ") {
		ctx := Term{ch.S[len("(ctx.donechan ") : len(ch.S)-1], SInt}
		return x.doneNow(cfg.st, ctx)
	}
	return x.chanClosed(cfg.st, ch)
}

// selectOp models a non-blocking select over receive cases on context Done
// channels: a case is taken iff its channel is ready.
func (x *Exec) selectOp(cfg *Config, f *Frame, i *ssa.Select) ([]*Config, bool) {
	if i.Blocking && f.watcher == nil {
		// a blocking select over receive cases returns when one of the
		// channels is ready. One path per case: a context's Done channel is
		// ready iff the context is done (now, after other goroutines may have
		// run); for any other channel the path records the ghost fact
		// recvready(ch): a receive on it was possible (a value was sent or it
		// was closed) - which is all the waiter knows.
		x.interfere(cfg)
		rt := i.Type().(*types.Tuple)
		var forks []*Config
		first := true
		for k, stt := range i.States {
			if stt.Dir != types.RecvOnly {
				unsupported("blocking select with a send case")
			}
			c := cfg
			if !first {
				c = nil
			}
			_ = c
			first = false
			_ = k
		}
		base := cfg.clone()
		for k, stt := range i.States {
			c := cfg
			if k > 0 {
				c = base.clone()
			}
			cf := c.top()
			ch := x.tv(x.get(cf, stt.Chan))
			if strings.HasPrefix(ch.S, "(ctx.donechan ") {
				ctx := Term{ch.S[len("(ctx.donechan ") : len(ch.S)-1], SInt}
				c.st.assume(x.doneNow(c.st, ctx))
			} else {
				rr := x.heapGet(c.st, "$recvready", SArr(SInt, SBool))
				c.st.heap["$recvready"] = Store(rr, ch, True)
			}
			tup := TupV{TV{T: x.intLit(int64(k), x.intSort(types.Typ[types.Int]))}, TV{T: x.d.Fresh("recvok", SBool)}}
			for j := 2; j < rt.Len(); j++ {
				tup = append(tup, x.symbolicOf(c.st, x.d.FreshName("recv"), rt.At(j).Type()))
			}
			cf.regs[i] = tup
			cf.idx++
			if k > 0 {
				forks = append(forks, c)
			}
		}
		x.usedTrusted["blocking select: returns when one of its receive cases is ready (context done / value sent or channel closed)"] = true
		return forks, false
	}
	if i.Blocking {
		// a parked goroutine: take a case this function has enabled
		rt := i.Type().(*types.Tuple)
		for k, stt := range i.States {
			if stt.Dir != types.RecvOnly {
				continue
			}
			ch := x.tv(x.get(f, stt.Chan))
			if x.readyNow(cfg, ch).S == "true" {
				tup := TupV{TV{T: x.intLit(int64(k), x.intSort(types.Typ[types.Int]))}, TV{T: False}}
				for j := 2; j < rt.Len(); j++ {
					tup = append(tup, x.zeroOf(rt.At(j).Type()))
				}
				f.regs[i] = tup
				f.idx++
				return nil, false
			}
		}
		x.abortWatcher(cfg, f)
		return nil, false
	}
	if len(i.States) != 1 || i.States[0].Dir != types.RecvOnly {
		unsupported("select with %d cases", len(i.States))
	}
	ch := x.tv(x.get(f, i.States[0].Chan))
	ready := x.chanReady(cfg, ch)
	idx := Ite(ready, x.intLit(0, x.intSort(types.Typ[types.Int])), x.intLit(-1, x.intSort(types.Typ[types.Int])))
	tup := TupV{TV{T: idx}, TV{T: False}}
	// received value slots
	rt := i.Type().(*types.Tuple)
	for k := 2; k < rt.Len(); k++ {
		tup = append(tup, x.zeroOf(rt.At(k).Type()))
	}
	f.regs[i] = tup
	f.idx++
	return nil, false
}

// chanReady: a context's Done channel is ready iff the context is done now.
func (x *Exec) chanReady(cfg *Config, ch Term) Term {
	if strings.HasPrefix(ch.S, "(ctx.donechan ") {
		ctx := Term{ch.S[len("(ctx.donechan ") : len(ch.S)-1], SInt}
		return x.doneNow(cfg.st, ctx)
	}
	return x.d.Fresh("chanready", SBool)
}

func (x *Exec) sendOp(cfg *Config, f *Frame, i *ssa.Send) { unsupported("channel send") }

func (x *Exec) recvOp(cfg *Config, f *Frame, i *ssa.UnOp) Val {
	ch := x.tv(x.get(f, i.X))
	if strings.HasPrefix(ch.S, "(ctx.donechan ") {
		ctx := Term{ch.S[len("(ctx.donechan ") : len(ch.S)-1], SInt}
		if x.doneNow(cfg.st, ctx).S == "true" {
			// Done channels carry no values: the receive yields the zero value
			if i.CommaOk {
				return TupV{x.zeroOf(i.Type().(*types.Tuple).At(0).Type()), TV{T: False}}
			}
			return x.zeroOf(i.Type())
		}
	}
	if x.readyNow(cfg, ch).S == "true" {
		if i.CommaOk {
			return TupV{x.zeroOf(i.Type().(*types.Tuple).At(0).Type()), TV{T: False}}
		}
		return x.zeroOf(i.Type())
	}
	if f.watcher != nil {
		x.abortWatcher(cfg, f)
		return abortedVal{}
	}
	// a blocking receive returns when the channel is ready: a context's Done
	// channel when the context is done (now, after other goroutines ran); any
	// other channel when a value was sent or it was closed - recorded as the
	// ghost fact recvready(ch)
	x.interfere(cfg)
	x.usedTrusted["blocking receive: returns when the channel is ready (context done / value sent or channel closed)"] = true
	if strings.HasPrefix(ch.S, "(ctx.donechan ") {
		ctx := Term{ch.S[len("(ctx.donechan ") : len(ch.S)-1], SInt}
		cfg.st.assume(x.doneNow(cfg.st, ctx))
	} else {
		rr := x.heapGet(cfg.st, "$recvready", SArr(SInt, SBool))
		cfg.st.heap["$recvready"] = Store(rr, ch, True)
	}
	if i.CommaOk {
		tup := i.Type().(*types.Tuple)
		return TupV{x.symbolicOf(cfg.st, x.d.FreshName("recv"), tup.At(0).Type()), TV{T: x.d.Fresh("recvok", SBool)}}
	}
	return x.symbolicOf(cfg.st, x.d.FreshName("recv"), i.Type())
}

type abortedVal struct{}

func (x *Exec) closeChan(cfg *Config, ch Term, pos token.Pos) {
	x.nilcheck(cfg, ch, "close of nil channel", pos)
	closed := x.heapGet(cfg.st, "$closed", SArr(SInt, SBool))
	// a definite double close on this path is reported; absence of a double
	// close in general is not an obligation (the ghost channel state is
	// forgotten at every point where other goroutines or callees may have
	// closed channels, so it could not be discharged for harmless code)
	if c := Select(closed, ch); c.S == "true" {
		x.oblige(cfg, "close-of-closed-channel", x.lockName(ch), False, nil, pos)
	}
	cfg.st.heap["$closed"] = Store(closed, ch, True)
	cfg.closedNow = true
	// option closes-after <channel variable> <function variable>: the channel
	// is closed only after the function has been called in this invocation
	if x.c != nil && x.c.Options["closes-after"] != "" && len(cfg.frames) > 0 {
		for _, part := range strings.Split(x.c.Options["closes-after"], ";") {
			fs := strings.Fields(part)
			if len(fs) != 2 {
				continue
			}
			env := x.entryEnv(cfg)
			env.frame = cfg.frames[0]
			env.old = cfg.old
			che, err1 := ParseExpr(fs[0])
			fe, err2 := ParseExpr("calls(" + fs[1] + ") > old(calls(" + fs[1] + "))")
			if err1 != nil || err2 != nil {
				unsupported("option closes-after: bad expression")
			}
			isThis := Eq(x.specTerm(env, che), ch)
			x.oblige(cfg, "close-order", fs[0]+" closed after "+fs[1]+" was called", Implies(isThis, x.specBool(env, fe)), nil, pos)
		}
	}
}

// ---------------------------------------------------------------------------
// guarded_by obligations (C13)
// ---------------------------------------------------------------------------

func (P *Program) guardFor(styp types.Type, field string) (string, bool) {
	if P.guards == nil {
		P.guards = map[string]string{}
		for short, cf := range P.Contracts {
			for _, g := range cf.Guards {
				for _, f := range g.Fields {
					P.guards[short+"."+g.Struct+"."+f] = g.Mutex
				}
			}
		}
	}
	m, ok := P.guards[typeName(styp)+"."+field]
	return m, ok
}

// guardedSub: is ref the address of a struct embedded by value in a guarded
// field (e.g. &ec.stack with "guarded Collector.{stack} by mu")? Returns the
// mutex term of the owner.
func (x *Exec) guardedSub(cfg *Config, ref Term) (Term, string, bool) {
	s := ref.S
	if !strings.HasPrefix(s, "(sub!") && !strings.HasPrefix(s, "(|sub!") {
		return Term{}, "", false
	}
	sp := strings.IndexByte(s, ' ')
	if sp < 0 {
		return Term{}, "", false
	}
	name := strings.Trim(s[1:sp], "|")          // sub!erc.Collector.stack
	parent := Term{s[sp+1 : len(s)-1], SInt}      // owner reference
	full := strings.TrimPrefix(name, "sub!")      // erc.Collector.stack
	dot := strings.LastIndex(full, ".")
	if dot < 0 {
		return Term{}, "", false
	}
	tn, fld := full[:dot], full[dot+1:]
	x.P.guardFor(types.Typ[types.Int], "") // make sure the table is built
	mfield, ok := x.P.guards[tn+"."+fld]
	if !ok {
		return Term{}, "", false
	}
	// find the owner's struct type to locate the mutex field
	var styp types.Type
	if i := strings.LastIndex(tn, "."); i >= 0 {
		if pkg := x.pkgOf(tn[:i]); pkg != nil {
			if obj := pkg.Scope().Lookup(tn[i+1:]); obj != nil {
				styp = obj.Type()
			}
		}
	}
	if styp == nil {
		return Term{}, "", false
	}
	st, ok := styp.Underlying().(*types.Struct)
	if !ok {
		return Term{}, "", false
	}
	for i := 0; i < st.NumFields(); i++ {
		if st.Field(i).Name() != mfield {
			continue
		}
		if isStructType(st.Field(i).Type()) {
			return x.subRef(styp, i, parent), tn + "." + fld + " by " + mfield, true
		}
		_, arr, _ := x.fieldArr(cfg.st, styp, i)
		return Select(arr, parent), tn + "." + fld + " by " + mfield, true
	}
	return Term{}, "", false
}

// guardedCall: calling a method on a guarded embedded object, or letting its
// address escape, needs the owner's mutex.
func (x *Exec) guardedCall(cfg *Config, recv Val, what string, pos token.Pos) {
	tv, ok := recv.(TV)
	if !ok {
		return
	}
	if m, desc, ok := x.guardedSub(cfg, tv.T); ok {
		x.oblige(cfg, "guarded-call", what+" on "+desc, Select(x.heldArr(cfg.st), m), []string{"C13"}, pos)
	}
}

func (x *Exec) guardedAccess(cfg *Config, addr Val, write bool, what string, pos token.Pos) {
	a, ok := addr.(AddrV)
	if !ok || a.Kind != aField || a.STyp == nil {
		return
	}
	if m, desc, ok := x.guardedSub(cfg, a.Base); ok {
		rw := "read"
		if write {
			rw = "write"
		}
		x.oblige(cfg, "guarded-"+rw, desc, Or(Select(x.heldArr(cfg.st), m), Gt(a.Base, x.d.Const("H0!$top", SInt))), []string{"C13"}, pos)
		return
	}
	fname, _ := fieldNameOf(a.STyp, a.FIdx)
	mfield, ok := x.P.guardFor(a.STyp, fname)
	if !ok {
		return
	}
	s := a.STyp.Underlying().(*types.Struct)
	var m Term
	found := false
	if strings.HasPrefix(mfield, "ghost:") {
		g := x.ghostField(typeName(a.STyp), strings.TrimPrefix(mfield, "ghost:"))
		if g == nil {
			unsupported("guard ghost field %s not declared for %s", mfield, typeName(a.STyp))
		}
		m = x.ghostRead(cfg.st, g, a.Base).T
		found = true
	}
	optional := false
	if strings.HasPrefix(mfield, "optional:") {
		// guarded S.{f} by optional:ufun(field): the mutex is ufun(&obj.field),
		// and may be absent (nil: the object is not shared between goroutines)
		spec := strings.TrimPrefix(mfield, "optional:")
		op, cp := strings.Index(spec, "("), strings.LastIndex(spec, ")")
		if op < 0 || cp < op {
			unsupported("guard %s: want optional:fn(field)", mfield)
		}
		fn, fld := spec[:op], strings.TrimSpace(spec[op+1:cp])
		uf, ok := x.ufun(nil, fn)
		if !ok {
			unsupported("guard %s: %s is not a declared ufun", mfield, fn)
		}
		for i := 0; i < s.NumFields(); i++ {
			if s.Field(i).Name() != fld {
				continue
			}
			var arg Term
			if isStructType(s.Field(i).Type()) {
				arg = x.subRef(a.STyp, i, a.Base)
			} else {
				_, arr, _ := x.fieldArr(cfg.st, a.STyp, i)
				arg = Select(arr, a.Base)
			}
			m = uf.apply(arg)
			found, optional = true, true
		}
	}
	for i := 0; i < s.NumFields() && !found; i++ {
		if s.Field(i).Name() != mfield {
			continue
		}
		found = true
		if isStructType(s.Field(i).Type()) {
			m = x.subRef(a.STyp, i, a.Base)
		} else {
			_, arr, _ := x.fieldArr(cfg.st, a.STyp, i)
			m = Select(arr, a.Base)
		}
	}
	if !found {
		unsupported("guard mutex field %s not found in %s", mfield, typeName(a.STyp))
	}
	rw := "read"
	if write {
		rw = "write"
	}
	held := Select(x.heldArr(cfg.st), m)
	if !write {
		held = Or(held, Select(x.heapGet(cfg.st, "$rheld", SArr(SInt, SBool)), m))
	}
	// objects allocated by this invocation are not yet shared
	top0 := x.d.Const("H0!$top", SInt)
	goal := Or(held, Gt(a.Base, top0))
	if optional {
		goal = Or(goal, Eq(m, IntLit(0)))
	}
	x.oblige(cfg, "guarded-"+rw, fmt.Sprintf("%s.%s by %s", typeName(a.STyp), fname, mfield), goal, []string{"C13"}, pos)
}

// substExpr replaces free identifiers of e according to sub (a quantifier
// that rebinds a substituted name stops the substitution below it).
func substExpr(e Expr, sub map[string]Expr) Expr {
	if e == nil {
		return nil
	}
	switch ee := e.(type) {
	case EIdent:
		if r, ok := sub[ee.Name]; ok {
			return r
		}
		return ee
	case EUnary:
		return EUnary{ee.Op, substExpr(ee.X, sub)}
	case EBinary:
		return EBinary{ee.Op, substExpr(ee.L, sub), substExpr(ee.R, sub)}
	case ECond:
		return ECond{substExpr(ee.C, sub), substExpr(ee.A, sub), substExpr(ee.B, sub)}
	case EField:
		return EField{substExpr(ee.X, sub), ee.Name}
	case EIndex:
		return EIndex{substExpr(ee.X, sub), substExpr(ee.I, sub)}
	case ESlice:
		return ESlice{substExpr(ee.X, sub), substExpr(ee.Lo, sub), substExpr(ee.Hi, sub)}
	case ECall:
		n := ECall{Fn: ee.Fn}
		for _, a := range ee.Args {
			n.Args = append(n.Args, substExpr(a, sub))
		}
		return n
	case EQuant:
		inner := sub
		for _, v := range ee.Vars {
			if _, clash := sub[v.Name]; clash {
				inner = map[string]Expr{}
				for k, r := range sub {
					inner[k] = r
				}
				for _, v2 := range ee.Vars {
					delete(inner, v2.Name)
				}
				break
			}
		}
		return EQuant{ee.Forall, ee.Vars, substExpr(ee.Body, inner)}
	case ESeqLit:
		n := ESeqLit{}
		for _, a := range ee.Elems {
			n.Elems = append(n.Elems, substExpr(a, sub))
		}
		return n
	}
	return e
}

// conjunctsDeep flattens e into conjuncts, unfolding (one level of) boolean
// predicates by substitution so that the result is meaningful under binders.
func (x *Exec) conjunctsDeep(env *SpecEnv, e Expr, depth int) []Expr {
	switch ee := e.(type) {
	case EBinary:
		if ee.Op == "&&" {
			return append(x.conjunctsDeep(env, ee.L, depth), x.conjunctsDeep(env, ee.R, depth)...)
		}
	case ECall:
		if depth < 1 {
			if pd := x.findPred(env, ee.Fn); pd != nil && len(pd.Params) == len(ee.Args) && pd.Ret == "bool" {
				sub := map[string]Expr{}
				for k, p := range pd.Params {
					a := ee.Args[k]
					if strings.HasPrefix(p.Type, "*") {
						a = ECall{Fn: "cast", Args: []Expr{a, EStr{p.Type}}}
					}
					sub[p.Name] = a
				}
				return x.conjunctsDeep(env, substExpr(pd.Body, sub), depth+1)
			}
		}
	}
	return []Expr{e}
}

// splitQuantGoal: forall v :: [withtrig(pats...,] A ==> (C1 && C2 && ...) [)]
// is proved as one obligation per Ci (same hypotheses, smaller goals).
func (x *Exec) splitQuantGoal(env *SpecEnv, q EQuant) []Expr {
	if !q.Forall {
		return nil
	}
	body := q.Body
	var wrap func(Expr) Expr = func(b Expr) Expr { return b }
	if wc, ok := body.(ECall); ok && (wc.Fn == "withtrig" || wc.Fn == "withmtrig") && len(wc.Args) >= 2 {
		pats := wc.Args[:len(wc.Args)-1]
		fn := wc.Fn
		body = wc.Args[len(wc.Args)-1]
		wrap = func(b Expr) Expr { return ECall{Fn: fn, Args: append(append([]Expr{}, pats...), b)} }
	}
	imp, ok := body.(EBinary)
	if !ok || imp.Op != "==>" {
		return nil
	}
	cs := x.conjunctsDeep(env, imp.R, 0)
	if len(cs) < 2 {
		return nil
	}
	var out []Expr
	for _, c := range cs {
		out = append(out, EQuant{true, q.Vars, wrap(EBinary{"==>", imp.L, c})})
	}
	return out
}

// obligeParts proves a clause; a universally quantified implication with a
// conjunctive conclusion is proved conclusion by conclusion.
func (x *Exec) obligeParts(cfg *Config, env *SpecEnv, kind, label string, e Expr, props []string, pos token.Pos) {
	if q, ok := e.(EQuant); ok {
		if parts := x.splitQuantGoal(env, q); parts != nil {
			for k, pe := range parts {
				x.oblige(cfg, kind, fmt.Sprintf("%s [%d/%d]", label, k+1, len(parts)), x.specBool(env, pe), props, pos)
			}
			return
		}
	}
	x.oblige(cfg, kind, label, x.specBool(env, e), props, pos)
}

// modEntryResolves: does a modifies entry still denote something in the tree?
func (x *Exec) modEntryResolves(env *SpecEnv, e Expr) (ok bool) {
	defer func() {
		if r := recover(); r != nil {
			if _, isU := r.(unsupportedErr); isU {
				ok = false
				return
			}
			panic(r)
		}
	}()
	x.resolveModEntry(env, e)
	return true
}
