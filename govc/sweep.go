package main

import (
	"go/types"
	"strings"

	"golang.org/x/tools/go/ssa"
)

// Zero-annotation sweep for C13: exported functions (and closures they let
// escape) that can reach state declared `guarded` but have no contract are
// verified with a thin contract: no precondition, no lock held at entry, only
// lock-discipline obligations count.

func (P *Program) touchesGuarded(fn *ssa.Function, depth int, seen map[*ssa.Function]bool) bool {
	if fn == nil || seen[fn] || depth > 3 {
		return false
	}
	seen[fn] = true
	body := fn
	if len(body.Blocks) == 0 && fn.Origin() != nil {
		body = fn.Origin()
	}
	for _, b := range body.Blocks {
		for _, in := range b.Instrs {
			switch i := in.(type) {
			case *ssa.FieldAddr:
				if st := derefType(i.X.Type()); st != nil {
					if s, ok := st.Underlying().(*types.Struct); ok {
						if m, g := P.guardFor(st, s.Field(i.Field).Name()); g && !strings.HasPrefix(m, "ghost:") {
							return true
						}
					}
				}
			case *ssa.MakeClosure:
				if f, ok := i.Fn.(*ssa.Function); ok && P.boundNeedsLock(f) != "" {
					return true
				}
			case ssa.CallInstruction:
				common := i.Common()
				if common.IsInvoke() {
					if nt, ok := common.Value.Type().(*types.Named); ok && nt.Obj().Pkg() != nil {
						if cf := P.Contracts[pkgShortAny(nt.Obj().Pkg().Path())]; cf != nil {
							_ = cf
						}
					}
					continue
				}
				callee := common.StaticCallee()
				if callee == nil {
					continue
				}
				cb := callee
				if len(cb.Blocks) == 0 && callee.Origin() != nil {
					cb = callee.Origin()
				}
				if c := P.ContractFor(cb); c != nil {
					continue
				}
				if inModuleOrInlinable(cb) && P.touchesGuarded(cb, depth+1, seen) {
					return true
				}
			}
		}
	}
	return false
}

func contractNeedsLock(c *FuncContract) bool {
	for _, r := range c.Requires {
		if strings.Contains(r.Text, "held(") && !strings.Contains(r.Text, "!held(") {
			return true
		}
	}
	return false
}

func isExportedEntry(fn *ssa.Function) bool {
	if fn.Parent() != nil || fn.Synthetic != "" {
		return false
	}
	obj := fn.Object()
	if obj == nil || !obj.Exported() {
		return false
	}
	if recv := fn.Signature.Recv(); recv != nil {
		t := recv.Type()
		if pt, ok := t.(*types.Pointer); ok {
			t = pt.Elem()
		}
		if nt, ok := t.(*types.Named); ok && !nt.Obj().Exported() {
			return false
		}
	}
	return true
}

// sweepJobs lists uncontracted exported functions that can reach guarded state.
func (P *Program) sweepJobs() map[string]*FuncContract {
	out := map[string]*FuncContract{}
	for key, fn := range P.Funcs {
		if P.ContractFor(fn) != nil || !isExportedEntry(fn) {
			continue
		}
		if strings.HasSuffix(funcPkgShort(fn), "_test") {
			continue
		}
		if !P.touchesGuarded(fn, 0, map[*ssa.Function]bool{}) {
			continue
		}
		out[key] = &FuncContract{Key: funcKey(fn), Pkg: funcPkgShort(fn), Props: []string{"C13"}, Mode: "int", Loops: map[int]*LoopSpec{},
			Options: map[string]string{"sweep": "true", "noframe": "true", "old": "section"}}
	}
	return out
}

// boundNeedsLock: fn is a bound-method wrapper (x.m used as a value) of a
// method whose contract - or, for an interface method, whose interface
// contract - requires a lock to be held. Returns a description, or "".
func (P *Program) boundNeedsLock(fn *ssa.Function) string {
	if fn == nil || !strings.Contains(fn.Synthetic, "bound method wrapper") {
		return ""
	}
	m, ok := fn.Object().(*types.Func)
	if !ok || m == nil {
		return ""
	}
	sig, _ := m.Type().(*types.Signature)
	if sig == nil || sig.Recv() == nil {
		return ""
	}
	rt := sig.Recv().Type()
	if pt, ok := rt.(*types.Pointer); ok {
		rt = pt.Elem()
	}
	if types.IsInterface(rt) {
		if nt, ok := rt.(*types.Named); ok && nt.Obj().Pkg() != nil {
			if cf := P.Contracts[pkgShortAny(nt.Obj().Pkg().Path())]; cf != nil {
				if c := cf.Ifaces[nt.Obj().Name()+"."+m.Name()]; c != nil && contractNeedsLock(c) {
					return nt.Obj().Name() + "." + m.Name()
				}
			}
		}
		return ""
	}
	if mf := P.Prog.FuncValue(m); mf != nil {
		body := mf
		if len(body.Blocks) == 0 && mf.Origin() != nil {
			body = mf.Origin()
		}
		if c := P.ContractFor(body); c != nil && contractNeedsLock(c) {
			return fullKey(body)
		}
	}
	return ""
}
