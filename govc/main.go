package main

import (
	"encoding/json"
	"flag"
	"fmt"
	"golang.org/x/tools/go/ssa"
	"os"
	"path/filepath"
	"sort"
	"strconv"
	"strings"
	"sync"
	"sync/atomic"
	"time"
)

var verifDir = "/verif"
var devTimeout int
var devObl string

type KnownFinding struct {
	Property   string `json:"property"`
	Obligation string `json:"obligation"` // exact obligation name or prefix ending in *
	What       string `json:"what"`
	Replay     string `json:"replay,omitempty"`
}

type KnownFile struct {
	Findings []KnownFinding `json:"findings"`
	Fixed    []string       `json:"fixed"`
}

func loadKnown() KnownFile {
	var kf KnownFile
	data, err := os.ReadFile(filepath.Join(verifDir, "known_findings.json"))
	if err != nil {
		return kf
	}
	if err := json.Unmarshal(data, &kf); err != nil {
		fmt.Fprintf(os.Stderr, "known_findings.json: %v\n", err)
		os.Exit(2)
	}
	return kf
}

func (kf KnownFile) match(prop, obl string) *KnownFinding {
	for i := range kf.Findings {
		k := &kf.Findings[i]
		if k.Property != prop {
			continue
		}
		if k.Obligation == obl {
			return k
		}
		if strings.HasSuffix(k.Obligation, "*") && strings.HasPrefix(obl, strings.TrimSuffix(k.Obligation, "*")) {
			return k
		}
	}
	return nil
}

func hasProp(ps []string, p string) bool {
	for _, q := range ps {
		if q == p {
			return true
		}
	}
	return false
}

func contractMentions(c *FuncContract, prop string) bool {
	if hasProp(c.Props, prop) {
		return true
	}
	for _, cl := range c.Ensures {
		if hasProp(cl.Props, prop) {
			return true
		}
	}
	for _, ls := range c.Loops {
		for _, cl := range ls.Invariants {
			if hasProp(cl.Props, prop) {
				return true
			}
		}
	}
	return false
}

type funcReport struct {
	Key         string   `json:"function"`
	Obligations int      `json:"obligations"`
	Discharged  int      `json:"discharged"`
	Paths       int      `json:"paths"`
	Abstracted  bool     `json:"abstracted,omitempty"`
	Notes       []string `json:"notes,omitempty"`
	Inlined     []string `json:"inlined,omitempty"`
	Callees     []string `json:"callee_contracts_used,omitempty"`
	Trusted     bool     `json:"trusted_contract,omitempty"`
}

func main() {
	if len(os.Args) < 2 {
		fmt.Fprintln(os.Stderr, "usage: govc check <PROPERTY> [quick|thorough] | govc func <pkg.Key> | govc list")
		os.Exit(2)
	}
	switch os.Args[1] {
	case "check":
		fs := flag.NewFlagSet("check", flag.ExitOnError)
		repo := fs.String("repo", "/repo", "repository")
		keep := fs.Bool("keep", false, "keep smt files")
		only := fs.String("only", "", "only functions containing this substring")
		verbose := fs.Bool("v", false, "verbose")
		fs.StringVar(&devObl, "obl", "", "development: solve only obligations whose name contains this substring")
		fs.IntVar(&devTimeout, "t", 0, "development: per-obligation timeout in seconds (0: tier default); skips the refutation queries")
		fs.Parse(os.Args[2:])
		args := fs.Args()
		if len(args) < 1 {
			fmt.Fprintln(os.Stderr, "usage: govc check [-repo dir] <PROPERTY> [quick|thorough]")
			os.Exit(2)
		}
		tier := "quick"
		if len(args) > 1 {
			tier = args[1]
		}
		if t := os.Getenv("VERIF_TIER"); t != "" && len(args) < 2 {
			tier = t
		}
		os.Exit(runCheck(*repo, args[0], tier, *keep, *only, *verbose))
	case "replay":
		if len(os.Args) < 3 {
			os.Exit(2)
		}
		os.Exit(runReplay(os.Args[2]))
	default:
		fmt.Fprintln(os.Stderr, "unknown command")
		os.Exit(2)
	}
}

func runCheck(repo, prop, tier string, keep bool, only string, verbose bool) int {
	activeProp = prop
	start := time.Now()
	seed := int64(0)
	if s := os.Getenv("VERIF_SEED"); s != "" {
		seed, _ = strconv.ParseInt(s, 10, 64)
	}
	timeout := 45
	if tier == "thorough" {
		timeout = 120
	}
	if devTimeout > 0 {
		timeout = devTimeout
	}
	P, err := LoadProgram(repo, []string{"./..."})
	if err != nil {
		fmt.Fprintf(os.Stderr, "govc: cannot load %s: %v\n", repo, err)
		return 2
	}
	loadS := time.Since(start).Seconds()
	// functions for this property
	type job struct {
		key string
		c   *FuncContract
	}
	var jobs []job
	var bindingLost []string
	for _, short := range sortedKeys(P.Contracts) {
		cf := P.Contracts[short]
		for _, key := range sortedKeys(cf.Funcs) {
			c := cf.Funcs[key]
			if !contractMentions(c, prop) {
				continue
			}
			full := short + "." + key
			if only != "" && !strings.Contains(full, only) {
				continue
			}
			if _, ok := P.Funcs[full]; !ok {
				bindingLost = append(bindingLost, full)
				continue
			}
			jobs = append(jobs, job{full, c})
		}
	}
	var sweptNames []string
	if prop == "C13" {
		sj := P.sweepJobs()
		for _, key := range sortedKeys(sj) {
			if only != "" && !strings.Contains(key, only) {
				continue
			}
			jobs = append(jobs, job{key, sj[key]})
			sweptNames = append(sweptNames, key)
		}
	}
	if len(jobs) == 0 && len(bindingLost) == 0 {
		fmt.Fprintf(os.Stderr, "govc: no contracts for property %s\n", prop)
		return 2
	}
	var all []*Obligation
	var reports []*funcReport
	trustedUsed := map[string]bool{}
	var abstracted []string
	var trustedContracts []string
	repByFunc := map[string]*funcReport{}
	for _, j := range jobs {
		fn := P.Funcs[j.key]
		rep := &funcReport{Key: j.key}
		reports = append(reports, rep)
		repByFunc[j.key] = rep
		if j.c.Trusted {
			rep.Trusted = true
			trustedContracts = append(trustedContracts, j.key+" ("+j.c.Options["trusted-reason"]+")")
			continue
		}
		x := NewExec(P, fn, j.c)
		func() {
			defer func() {
				if r := recover(); r != nil {
					if u, ok := r.(unsupportedErr); ok {
						x.note("unsupported: %s", u.msg)
						x.abstract = true
						return
					}
					panic(r)
				}
			}()
			x.Verify()
		}()
		rep.Paths = x.paths
		rep.Notes = x.notes
		rep.Inlined = sortedKeys(x.inlined)
		rep.Callees = sortedKeys(x.calledContracts)
		for k := range x.usedTrusted {
			trustedUsed[k] = true
		}
		if x.abstract {
			rep.Abstracted = true
			abstracted = append(abstracted, j.key)
			if j.c.Options["sweep"] != "true" {
				// frame-only re-run: the function no longer fits its loop
				// invariants (it was restructured). Its frame clause does not
				// depend on them: re-run with the loops abstracted by "true" and
				// keep only the obligations that every write stays inside the
				// modifies clause. The function stays "not proved".
				if prop == "C13" && hasProp(j.c.Props, "C13") && isExportedEntry(fn) && !contractNeedsLock(j.c) {
					// lock-discipline re-run: the guarded-by and escape
					// obligations need no functional contract - check the
					// function the way the zero-annotation sweep would
					sc := &FuncContract{Key: j.c.Key, Pkg: j.c.Pkg, Props: []string{"C13"}, Mode: "int", Loops: map[int]*LoopSpec{},
						Options: map[string]string{"sweep": "true", "noframe": "true", "old": "section"}}
					y := NewExec(P, fn, sc)
					func() {
						defer func() {
							if r := recover(); r != nil {
								if _, isU := r.(unsupportedErr); isU {
									y.abstract = true
									return
								}
								panic(r)
							}
						}()
						y.Verify()
					}()
					kept := 0
					for _, o := range y.obls {
						if !o.Canary && obligationInProperty(o, sc, prop) {
							o.Name += " [lock-discipline re-run: the contract no longer binds]"
							all = append(all, o)
							kept++
						}
					}
					rep.Notes = append(rep.Notes, fmt.Sprintf("lock-discipline re-run without the contract: %d obligations kept", kept))
					continue
				}
				if fo := frameOnlyRerun(P, fn, j.c); fo != nil {
					for _, o := range fo {
						if devObl != "" && !strings.Contains(o.Name, devObl) {
							continue
						}
						if obligationInProperty(o, j.c, prop) {
							all = append(all, o)
						}
					}
					rep.Notes = append(rep.Notes, fmt.Sprintf("frame-only re-run without loop invariants: %d frame obligations kept", len(fo)))
				}
				continue
			}
			// sweep: lock-discipline obligations found before the function
			// left the subset are still valid checks of the explored prefix
			x.exitPCs = nil
		}
		// exit-reachability canary
		if len(x.exitPCs) > 0 {
			pcs := x.exitPCs
			if len(pcs) > 6 {
				pcs = pcs[:6]
			}
			o := &Obligation{Name: j.key + "/canary(some-exit-reachable)", Kind: "canary", Func: j.key, Goal: Not(Or(pcs...)), Decls: x.d, Canary: true}
			x.obls = append(x.obls, o)
		}
		for _, o := range x.obls {
			if devObl != "" && !strings.Contains(o.Name, devObl) {
				continue
			}
			if o.Canary || obligationInProperty(o, j.c, prop) {
				all = append(all, o)
			}
		}
	}
	// solve
	smtDir := filepath.Join(outBase(), "smt", prop)
	os.RemoveAll(smtDir)
	os.MkdirAll(smtDir, 0o755)
	var wg sync.WaitGroup
	sem := make(chan struct{}, 16)
	var doneCnt, failCnt int64
	if verbose {
		fmt.Fprintf(os.Stderr, "govc: %d obligations to solve\n", len(all))
		stop := make(chan struct{})
		defer close(stop)
		go func() {
			for {
				select {
				case <-stop:
					return
				case <-time.After(10 * time.Second):
					fmt.Fprintf(os.Stderr, "govc: %d/%d solved, %d not discharged so far\n", atomic.LoadInt64(&doneCnt), len(all), atomic.LoadInt64(&failCnt))
				}
			}
		}()
	}
	for idx, o := range all {
		wg.Add(1)
		go func(idx int, o *Obligation) {
			defer wg.Done()
			sem <- struct{}{}
			defer func() { <-sem }()
			to := timeout
			if o.Canary {
				to = 3
			}
			script := "; " + o.Name + "\n" + o.Decls.Script(o.Assumptions, o.Goal, false)
			o.Result = Solve(script, smtDir, fmt.Sprintf("o%04d", idx), to)
			atomic.AddInt64(&doneCnt, 1)
			if !o.Canary && o.Result.Status != "unsat" {
				atomic.AddInt64(&failCnt, 1)
				if verbose {
					fmt.Fprintf(os.Stderr, "govc: not discharged (%s): %s\n", o.Result.Status, o.Name)
				}
			}
			if !o.Canary && o.Result.Status != "unsat" && !o.Quantified && devTimeout == 0 {
				// refutation attempt: quantifier-free projection with a model
				rs := o.Decls.ScriptOpt(o.Assumptions, o.Goal, true, true)
				rr := Solve(rs, smtDir, fmt.Sprintf("o%04d.refute", idx), 10)
				if rr.Status == "sat" {
					o.Model = parseModel(rr.Output)
					o.ModelText = rr.Output
				}
			}
		}(idx, o)
	}
	wg.Wait()
	// classify
	kf := loadKnown()
	bySolver := map[string]int{}
	solverTime := 0.0
	var failed, known, infra []*Obligation
	var brokenCanaries []string
	canaryGroups := map[string]*canaryGroup{}
	nObl, nDis, nCanary := 0, 0, 0
	type sample struct {
		Name   string  `json:"obligation"`
		Status string  `json:"status"`
		Solver string  `json:"solver"`
		TimeS  float64 `json:"time_s"`
		Bytes  int     `json:"smt_bytes"`
	}
	var samples []sample
	for idx, o := range all {
		solverTime += o.Result.Time
		if o.Canary {
			// a canary point may be reached on several paths, some of them
			// infeasible: it is contradictory only if it is so on every path
			key := o.Func + "/" + o.Detail
			cg := canaryGroups[key]
			if cg == nil {
				cg = &canaryGroup{name: o.Name}
				canaryGroups[key] = cg
			}
			cg.total++
			if o.Result.Status != "unsat" {
				cg.alive++
			}
			continue
		}
		rep := repByFunc[o.Func]
		if o.Result.Status == "unsat" {
			nObl++
			nDis++
			bySolver[o.Result.Solver]++
			if rep != nil {
				rep.Obligations++
				rep.Discharged++
			}
		} else if k := kf.match(prop, o.Name); k != nil {
			known = append(known, o)
		} else if o.Result.Status == "error" {
			// no solver could be run on it (disk full, solver missing ...): an
			// infrastructure failure, not a statement about the code
			infra = append(infra, o)
		} else {
			nObl++
			if rep != nil {
				rep.Obligations++
			}
			failed = append(failed, o)
		}
		if len(samples) < 12 || o.Result.Status != "unsat" {
			fi, _ := os.Stat(filepath.Join(smtDir, fmt.Sprintf("o%04d.smt2", idx)))
			sz := 0
			if fi != nil {
				sz = int(fi.Size())
			}
			if len(samples) < 40 {
				samples = append(samples, sample{o.Name, o.Result.Status, o.Result.Solver, round3(o.Result.Time), sz})
			}
		}
		if verbose {
			fmt.Printf("  %-8s %-7s %6.2fs %s\n", o.Result.Status, o.Result.Solver, o.Result.Time, o.Name)
		}
	}
	for _, k := range sortedKeys(canaryGroups) {
		nCanary++
		if canaryGroups[k].alive == 0 {
			brokenCanaries = append(brokenCanaries, canaryGroups[k].name)
		}
	}
	exit := 0
	// output
	for _, o := range known {
		k := kf.match(prop, o.Name)
		fmt.Printf("KNOWN-FINDING: property=%s %s [%s]\n", prop, k.What, o.Name)
	}
	replayDir := filepath.Join(outBase(), "replay", prop)
	os.MkdirAll(replayDir, 0o755)
	for _, o := range failed {
		idx := -1
		for i, oo := range all {
			if oo == o {
				idx = i
			}
		}
		path, found := writeReplay(P, replayDir, prop, o, filepath.Join(smtDir, fmt.Sprintf("o%04d.smt2", idx)))
		suffix := ""
		if !found {
			suffix = " no-failing-input-found"
		}
		fmt.Printf("VIOLATION property=%s replay=%s%s\n", prop, path, suffix)
		fmt.Printf("  failed obligation: %s (%s; %s) at %s\n", o.Name, o.Result.Status, strings.Join(o.Result.Tried, ","), o.Pos)
		exit = 1
	}
	// obligations that needed a sizeable part of the time limit are the ones
	// that may time out on a loaded machine: list them (informational)
	var slow []string
	for _, o := range all {
		if !o.Canary && o.Result.Status == "unsat" && o.Result.Time > float64(timeout)/4 {
			slow = append(slow, fmt.Sprintf("%s (%s %.1fs of %ds)", o.Name, o.Result.Solver, o.Result.Time, timeout))
		}
	}
	sort.Strings(slow)
	for _, sl := range slow {
		fmt.Printf("SLOW: %s\n", sl)
	}
	if len(infra) > 0 {
		out := strings.TrimSpace(infra[0].Result.Output)
		if len(out) > 300 {
			out = out[:300]
		}
		fmt.Printf("ERROR: property=%s %d obligation(s) could not be decided because no solver could be run (first: %s: %s); this is an infrastructure failure, not a violation\n", prop, len(infra), infra[0].Name, out)
		if exit == 0 {
			exit = 2
		}
	}
	if len(brokenCanaries) > 0 {
		for _, c := range brokenCanaries {
			fmt.Printf("BROKEN: vacuity canary proved (assumptions contradictory): %s\n", c)
		}
		exit = 2
	}
	for _, b := range bindingLost {
		fmt.Printf("NOTE: contract %s no longer binds to a function in the tree (binding-lost; not proved)\n", b)
	}
	for _, a := range abstracted {
		fmt.Printf("NOTE: %s left the supported subset and is not proved: %s\n", a, strings.Join(repByFunc[a].Notes, "; "))
	}
	// vacuity: obligation count against the recorded floor
	floor := expectedFloor(prop)
	if exit == 0 && nObl+len(known) < floor {
		fmt.Printf("BROKEN: only %d obligations generated for %s, expected at least %d (contracts stopped binding?)\n", nObl+len(known), prop, floor)
		exit = 2
	}
	wall := time.Since(start).Seconds()
	// evidence
	var tb []string
	for k := range trustedUsed {
		tb = append(tb, k)
	}
	sort.Strings(tb)
	tb = append(tb, "go/packages + go/ssa (x/tools v0.29.0) faithfully represent the source", "SMT solvers z3 5.1.0, z3 4.8.12, cvc5 1.0 (an obligation counts as discharged when any one reports unsat)", "govc VC generator (this repository)")
	for _, t := range trustedContracts {
		tb = append(tb, "trusted contract (body not verified): "+t)
	}
	var fnames []string
	for _, r := range reports {
		fnames = append(fnames, r.Key)
	}
	var knownNames []string
	for _, o := range known {
		knownNames = append(knownNames, o.Name)
	}
	assumptions := propertyAssumptions(P, prop)
	ev := map[string]interface{}{
		"property_id": prop,
		"tier":        tier,
		"seed":        seed,
		"level":       "proof",
		"coverage": map[string]interface{}{
			"obligations":                 nObl,
			"discharged":                  nDis,
			"checker_cmd":                 fmt.Sprintf("bin/govc check %s %s", prop, tier),
			"trusted_base":                tb,
			"samples":                     samples,
			"by_solver":                   bySolver,
			"solver_time_s":               round3(solverTime),
			"load_time_s":                 round3(loadS),
			"functions_under_contract":    fnames,
			"function_reports":            reports,
			"abstracted_functions":        abstracted,
			"binding_lost":                bindingLost,
			"known_finding_obligations":   knownNames,
			"swept_without_contract":      sweptNames,
			"canaries_checked":            nCanary,
			"canaries_failed_as_required": nCanary - len(brokenCanaries),
			"per_obligation_timeout_s":    timeout,
			"obligation_floor":            floor,
		},
		"assumptions": assumptions,
		"wall_s":      round3(wall),
		"violations":  len(failed),
	}
	evDir := filepath.Join(verifDir, "evidence")
	if d := os.Getenv("VERIF_EVIDENCE_DIR"); d != "" {
		evDir = d // scratch runs against modified trees must not overwrite the committed evidence
	}
	os.MkdirAll(evDir, 0o755)
	data, _ := json.MarshalIndent(ev, "", " ")
	os.WriteFile(filepath.Join(evDir, prop+".json"), data, 0o644)
	fmt.Printf("%s %s: %d functions, %d obligations, %d discharged, %d failed, %d known-finding, %d canaries ok, %d abstracted; %.1fs (load %.1fs, solver cpu %.1fs)\n",
		prop, tier, len(reports), nObl, nDis, len(failed), len(known), nCanary-len(brokenCanaries), len(abstracted), wall, loadS, solverTime)
	if !keep && exit == 0 {
		os.RemoveAll(smtDir)
	}
	return exit
}

// obligationInProperty decides which property an obligation counts for:
// clause tags win; lock-discipline obligations belong to C13 (and only those
// do); everything else belongs to the function's other properties.
func obligationInProperty(o *Obligation, c *FuncContract, prop string) bool {
	if len(o.Props) > 0 {
		return hasProp(o.Props, prop)
	}
	lockKind := strings.HasPrefix(o.Kind, "guarded-") || o.Kind == "guarded-call" || o.Kind == "guarded-escape" || o.Kind == "lock-not-held" || o.Kind == "unlock-held" || o.Kind == "wait-holds-lock" || o.Kind == "runlock-held" ||
		(o.Kind == "call-pre" && strings.Contains(o.Detail, "held("))
	if prop == "C13" {
		if c.Options["sweep"] == "true" {
			// thin contract: only direct mutex guards are decidable without
			// invariants (owner-ghost guards and callee preconditions are not)
			return (strings.HasPrefix(o.Kind, "guarded-") && !strings.Contains(o.Detail, "ghost:") && o.Kind != "guarded-call") || o.Kind == "unlock-held" || o.Kind == "wait-holds-lock"
		}
		return lockKind && hasProp(c.Props, "C13")
	}
	if strings.HasPrefix(o.Kind, "guarded-") {
		return false
	}
	return hasProp(c.Props, prop)
}

type canaryGroup struct {
	name         string
	total, alive int
}

func round3(f float64) float64 { return float64(int(f*1000+0.5)) / 1000 }

func expectedFloor(prop string) int {
	data, err := os.ReadFile(filepath.Join(verifDir, "expected_obligations.json"))
	if err != nil {
		return 1
	}
	var m map[string]int
	if json.Unmarshal(data, &m) != nil {
		return 1
	}
	if v, ok := m[prop]; ok {
		return v
	}
	return 1
}

func propertyAssumptions(P *Program, prop string) []string {
	out := []string{
		"Go int/int64 are mathematical integers in int-mode functions (no overflow of counters); bv-mode functions use exact 64/32-bit vectors",
		"float64 is modelled as Real (no rounding, no NaN/Inf)",
		"typed-nil pointers stored in interfaces are not modelled",
		"references read from the heap were allocated earlier (Go memory safety)",
	}
	for _, short := range sortedKeys(P.Contracts) {
		for _, a := range P.Contracts[short].Raw["assume"] {
			// "assume C05: text" or "assume *: text"
			i := strings.Index(a, ":")
			if i < 0 {
				continue
			}
			tag := strings.TrimSpace(a[:i])
			if tag == "*" || hasProp(strings.Split(tag, ","), prop) {
				out = append(out, strings.TrimSpace(a[i+1:]))
			}
		}
	}
	return out
}

// frameOnlyRerun verifies fn against a copy of its contract without loop
// invariants and returns only the frame obligations (nil if the function is
// outside the subset even then).
func frameOnlyRerun(P *Program, fn *ssa.Function, c *FuncContract) (out []*Obligation) {
	cc := *c
	cc.Loops = nil
	cc.Options = map[string]string{}
	for k, v := range c.Options {
		cc.Options[k] = v
	}
	cc.Options["frame-only"] = "true"
	y := NewExec(P, fn, &cc)
	ok := true
	func() {
		defer func() {
			if r := recover(); r != nil {
				if _, isU := r.(unsupportedErr); isU {
					ok = false
					return
				}
				panic(r)
			}
		}()
		y.Verify()
	}()
	if !ok || y.abstract {
		return nil
	}
	for _, o := range y.obls {
		if o.Canary {
			continue
		}
		if o.Kind == "frame" || o.Kind == "store-in-frame" || o.Kind == "call-in-frame" {
			// only fields of declared struct types: slices, cells and maps built
			// by the function itself are fresh, but without loop invariants
			// that is not provable
			d := o.Detail
			if i := strings.LastIndex(d, ": "); i >= 0 {
				d = d[i+2:]
			}
			if strings.HasPrefix(d, "elems!") || strings.HasPrefix(d, "cell!") || strings.HasPrefix(d, "map") || strings.HasPrefix(d, "ghost") || strings.Contains(d, "modifies all of") {
				continue
			}
			o.Name += " [frame-only re-run: the loop invariants no longer bind]"
			out = append(out, o)
		}
	}
	return out
}

// outBase: where scratch output (SMT scripts, replay files) goes; relocatable so
// that several checks of the same property can run side by side.
func outBase() string {
	if d := os.Getenv("VERIF_OUT_DIR"); d != "" {
		return d
	}
	return filepath.Join(verifDir, "out")
}
