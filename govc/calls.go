package main

import (
	"fmt"
	"go/token"
	"go/types"
	"strings"

	"golang.org/x/tools/go/ssa"
)

type target struct {
	fn      *ssa.Function
	binds   []Val
	builtin string
	iface   types.Type
	method  *types.Func
	recv    TV
	unknown *Term
	sig     *types.Signature
	name    string
	vtype   types.Type // static type of an unknown function value
	targs   map[string]types.Type // type arguments inherited by a closure of a generic function
}

func (x *Exec) resolveCall(cfg *Config, f *Frame, common *ssa.CallCommon) (target, []Val) {
	var args []Val
	if common.IsInvoke() {
		recv, ok := x.get(f, common.Value).(TV)
		if !ok {
			unsupported("invoke on non-scalar receiver")
		}
		for _, a := range common.Args {
			args = append(args, x.get(f, a))
		}
		sig := common.Method.Type().(*types.Signature)
		if recv.Dyn != nil {
			m := x.P.Prog.LookupMethod(recv.Dyn, common.Method.Pkg(), common.Method.Name())
			if m != nil {
				rv := x.unboxAs(recv, recv.Dyn)
				return target{fn: m, sig: sig, name: fullKey(m)}, append([]Val{rv}, args...)
			}
		}
		return target{iface: common.Value.Type(), method: common.Method, recv: recv, sig: sig, name: typeName(common.Value.Type()) + "." + common.Method.Name()}, append([]Val{recv}, args...)
	}
	for _, a := range common.Args {
		args = append(args, x.get(f, a))
	}
	sig := common.Signature()
	switch v := common.Value.(type) {
	case *ssa.Builtin:
		return target{builtin: v.Name(), sig: sig, name: v.Name()}, args
	case *ssa.Function:
		return target{fn: v, sig: sig, name: fullKey(v)}, args
	}
	val := x.get(f, common.Value)
	switch c := val.(type) {
	case *CloV:
		return target{fn: c.Fn, binds: c.Binds, sig: sig, name: fullKey(c.Fn), targs: c.Targs}, args
	case TV:
		if known, ok := cfg.st.clos[c.T.S]; ok {
			return target{fn: known.Fn, binds: known.Binds, sig: sig, name: fullKey(known.Fn), targs: known.Targs}, args
		}
		t := c.T
		return target{unknown: &t, sig: sig, name: x.nameOf(common.Value), vtype: common.Value.Type()}, args
	}
	unsupported("call of %T", val)
	return target{}, nil
}

func (x *Exec) doCall(cfg *Config, f *Frame, instr ssa.Instruction, common *ssa.CallCommon, dest ssa.Value, isDefer bool) ([]*Config, bool) {
	tg, args := x.resolveCall(cfg, f, common)
	return x.invoke(cfg, f, tg, args, dest, false, instr.Pos())
}

func (x *Exec) pushDefer(cfg *Config, f *Frame, i *ssa.Defer) {
	tg, args := x.resolveCall(cfg, f, i.Common())
	f.defers = append(f.defers, &deferredCall{call: i.Common(), fn: tg, args: args, pos: i.Pos()})
}

func (x *Exec) callDeferred(cfg *Config, f *Frame, d *deferredCall) ([]*Config, bool) {
	return x.invoke(cfg, f, d.fn.(target), d.args, nil, true, d.pos)
}

func (x *Exec) resultVal(cfg *Config, hint string, sig *types.Signature) Val {
	res := sig.Results()
	switch res.Len() {
	case 0:
		return TupV{}
	case 1:
		return x.symbolicOf(cfg.st, x.d.FreshName(hint)+"!r", res.At(0).Type())
	}
	var tv TupV
	base := x.d.FreshName(hint)
	for i := 0; i < res.Len(); i++ {
		tv = append(tv, x.symbolicOf(cfg.st, fmt.Sprintf("%s!r%d", base, i), res.At(i).Type()))
	}
	return tv
}

// finishCall binds the result of a call that was not inlined and advances.
func (x *Exec) finishCall(f *Frame, dest ssa.Value, res Val, isDefer bool) {
	if isDefer {
		return // stay on RunDefers / unwinding
	}
	if dest != nil {
		f.regs[dest] = res
	}
	f.idx++
}

func (x *Exec) invoke(cfg *Config, f *Frame, tg target, args []Val, dest ssa.Value, isDefer bool, pos token.Pos) ([]*Config, bool) {
	switch {
	case tg.builtin != "":
		res := x.builtin(cfg, f, tg, args, pos)
		if cfg.panicking && f.unwinding {
			return nil, false
		}
		x.finishCall(f, dest, res, isDefer)
		if cfg.closedNow {
			cfg.closedNow = false
			x.triggerWatchers(cfg, f)
		}
		return nil, false
	case tg.fn != nil:
		fn := tg.fn
		name := ssaFullName(fn)
		if m, ok := models[name]; ok {
			x.usedTrusted["model: "+name] = true
			res, forks := m(x, cfg, f, args, pos)
			if f.unwinding {
				return forks, false
			}
			x.finishCall(f, dest, res, isDefer)
			return forks, false
		}
		body := fn
		if len(body.Blocks) == 0 && fn.Origin() != nil {
			body = fn.Origin()
		}
		c := x.P.ContractFor(body)
		if c != nil && !c.Inline {
			if len(args) > 0 && body.Signature.Recv() != nil {
				x.guardedCall(cfg, args[0], fullKey(body), pos)
			}
			return x.applyContract(cfg, f, body, c, args, tg.binds, dest, isDefer, pos)
		}
		if len(body.Blocks) > 0 && inModuleOrInlinable(body) {
			if f.depth >= 12 {
				unsupported("inlining depth exceeded at %s", fullKey(body))
			}
			same := 0
			for _, fr := range cfg.frames {
				if fr.fn == body {
					same++
				}
			}
			// small helpers (ft.SafeCall ...) are legitimately re-entered through
			// callbacks; real recursion needs a contract
			if same >= 3 {
				unsupported("recursive call to %s without contract", fullKey(body))
			}
			x.inlined[fullKey(body)] = true
			x.indexDebug(body)
			nf := &Frame{fn: body, regs: map[ssa.Value]Val{}, block: body.Blocks[0], depth: f.depth + 1, isDefer: isDefer}
			if fn.Origin() == nil && len(fn.TypeArgs()) == 0 && f.targs != nil && fn.TypeParams() != nil && fn.TypeParams().Len() > 0 {
				// generic body called from its instantiation wrapper: same type arguments
				nf.targs = f.targs
			}
			if nf.targs == nil && tg.targs != nil {
				nf.targs = tg.targs
			}
			if fn.Origin() != nil && len(fn.TypeArgs()) > 0 {
				if tps := fn.Origin().TypeParams(); tps != nil && tps.Len() == len(fn.TypeArgs()) {
					nf.targs = map[string]types.Type{}
					for k := 0; k < tps.Len(); k++ {
						nf.targs[tps.At(k).Obj().Name()] = fn.TypeArgs()[k]
					}
				}
			}
			if !isDefer {
				if dest != nil {
					nf.callInstr = dest.(ssa.Instruction)
				} else {
					nf.callInstr = f.block.Instrs[f.idx]
				}
			}
			if len(args) != len(body.Params) {
				unsupported("arity mismatch calling %s", fullKey(body))
			}
			for k, p := range body.Params {
				nf.regs[p] = x.coerceParam(cfg, args[k], p.Type())
			}
			for k, fv := range body.FreeVars {
				if k >= len(tg.binds) {
					unsupported("missing binding for %s", fv.Name())
				}
				nf.regs[fv] = x.coerceParam(cfg, tg.binds[k], fv.Type())
			}
			cfg.frames = append(cfg.frames, nf)
			return nil, false
		}
		// external function without a model
		x.usedTrusted["external "+name+": fresh result, no effect on module state, does not panic"] = true
		res := x.resultVal(cfg, "ext!"+shortName(name), tg.sig)
		x.finishCall(f, dest, res, isDefer)
		return nil, false
	case tg.iface != nil:
		key := ifaceKey(tg.iface, tg.method.Name())
		if c := x.ifaceContract(tg.iface, tg.method.Name()); c != nil {
			return x.applyContract(cfg, f, nil, c, args, nil, dest, isDefer, pos)
		}
		if m, ok := models["iface:"+key]; ok {
			x.usedTrusted["model: "+key] = true
			res, forks := m(x, cfg, f, args, pos)
			if f.unwinding {
				return forks, false
			}
			x.finishCall(f, dest, res, isDefer)
			return forks, false
		}
		return x.unknownCall(cfg, f, tg, args, dest, isDefer, pos)
	default:
		return x.unknownCall(cfg, f, tg, args, dest, isDefer, pos)
	}
}

func ifaceKey(t types.Type, method string) string { return typeName(t) + "." + method }

func (x *Exec) ifaceContract(t types.Type, method string) *FuncContract {
	nt, ok := t.(*types.Named)
	if !ok || nt.Obj().Pkg() == nil {
		return nil
	}
	cf := x.P.Contracts[pkgShortAny(nt.Obj().Pkg().Path())]
	if cf == nil {
		return nil
	}
	return cf.Ifaces[nt.Obj().Name()+"."+method]
}

func shortName(s string) string {
	if i := strings.LastIndex(s, "/"); i >= 0 {
		s = s[i+1:]
	}
	return s
}

func ssaFullName(fn *ssa.Function) string {
	if fn.Origin() != nil {
		fn = fn.Origin()
	}
	return fn.String()
}

func inModuleOrInlinable(fn *ssa.Function) bool {
	if fn.Origin() != nil {
		fn = fn.Origin() // instantiations belong to their generic's package
	}
	root := fn
	for root.Parent() != nil {
		root = root.Parent()
	}
	if root.Pkg != nil {
		return strings.HasPrefix(root.Pkg.Pkg.Path(), modulePath)
	}
	// synthetic wrappers ($bound, $thunk) have no package but belong to methods
	if root.Synthetic != "" {
		if recv := root.Signature.Recv(); recv != nil {
			return true
		}
		if len(root.FreeVars) > 0 {
			return true
		}
	}
	return false
}

// coerceParam adapts an argument to the representation expected for a
// parameter type (pointer-to-scalar parameters are cell addresses).
func (x *Exec) coerceParam(cfg *Config, v Val, t types.Type) Val {
	if el := derefType(t); el != nil && !isStructType(el) {
		if tv, ok := v.(TV); ok {
			if _, isArr := el.Underlying().(*types.Array); !isArr {
				return AddrV{Kind: aCell, Arr: x.cellArr(el), Base: tv.T, Elem: el}
			}
		}
	}
	return v
}

// unknownCall models a call to an unknown function value: fresh results, the
// module's private state is untouched (assumption: callbacks do not re-enter
// the object under verification).
func (x *Exec) unknownCall(cfg *Config, f *Frame, tg target, args []Val, dest ssa.Value, isDefer bool, pos token.Pos) ([]*Config, bool) {
	x.usedTrusted["unknown function values (callbacks): arbitrary results, do not re-enter or mutate the verified object"] = true
	var forks []*Config
	if tg.unknown != nil {
		for _, ci := range cfg.st.ctxs {
			if ci.cancelFn.S == tg.unknown.S {
				ci.cancelled = true
				x.finishCall(f, dest, TupV{}, isDefer)
				// goroutines waiting for this context now run
				x.triggerWatchers(cfg, f)
				return nil, false
			}
		}
		x.oblige(cfg, "nil-func-call", tg.name, Neq(*tg.unknown, IntLit(0)), nil, pos)
		cfg.st.assume(Neq(*tg.unknown, IntLit(0)))
		// a function-typed parameter with a declared callback contract
		if x.c != nil && len(cfg.frames) == 1 {
			for _, cb := range x.c.Callbacks {
				if cb.Param == tg.name {
					return x.applyCallback(cfg, f, cb, args, dest, isDefer, pos)
				}
			}
		}
		// pure role: results are a function of the arguments
		if x.isPureRole(tg) {
			res := x.pureApply(cfg, tg, args)
			x.finishCall(f, dest, res, isDefer)
			return nil, false
		}
	}
	x.callOrderChecks(cfg, tg, pos)
	x.traceCall(cfg, tg, args)
	if x.c != nil && x.c.Options["callbacks-may-panic"] == "true" {
		pcfg := cfg.clone()
		pf := pcfg.top()
		pv := x.d.Fresh("panicval", SInt)
		pcfg.st.assume(Neq(pv, IntLit(0)))
		x.startPanic(pcfg, pf, pv, "callback panics", pos)
		forks = append(forks, pcfg)
	}
	res := x.resultVal(cfg, "call!"+sanitize(tg.name), tg.sig)
	x.recordCallResults(cfg, tg, res)
	// time passes while the callback runs: contexts may expire (the callback
	// itself may hold a cancel function)
	x.interfere(cfg)
	x.finishCall(f, dest, res, isDefer)
	return forks, false
}

// recordCallResults keeps the ghost call history of unknown function values:
// callret(f, k, pos) is result number pos of the k-th call of f (k counts from
// 0; the call just made has index calls(f)-1). This is the stream a producer
// yields over successive calls; it assumes nothing about the function.
func (x *Exec) recordCallResults(cfg *Config, tg target, res Val) {
	if tg.unknown == nil {
		return
	}
	var rs []Val
	switch r := res.(type) {
	case TupV:
		rs = r
	default:
		rs = []Val{res}
	}
	calls := x.heapGet(cfg.st, callsArrName(tg.sig), SArr(SInt, x.idxSort()))
	k := Sub(Select(calls, *tg.unknown), x.intLit(1, x.idxSort()))
	for pos, r := range rs {
		tv, ok := r.(TV)
		if !ok {
			continue
		}
		name := fmt.Sprintf("$callret!%d!%s!%s", pos, tv.T.Sort, sigKey(tg.sig))
		arr := x.heapGet(cfg.st, name, SArr(SInt, SArr(x.idxSort(), tv.T.Sort)))
		cfg.st.heap[name] = Store(arr, *tg.unknown, Store(Select(arr, *tg.unknown), k, tv.T))
	}
}

func sanitize(s string) string {
	var b strings.Builder
	for _, c := range s {
		if c >= 'a' && c <= 'z' || c >= 'A' && c <= 'Z' || c >= '0' && c <= '9' || c == '_' || c == '.' {
			b.WriteRune(c)
		} else {
			b.WriteByte('_')
		}
	}
	return b.String()
}

// isPureRole: function values of the named type dt/cmp.LessThan are pure
// total functions of their arguments (declared role, see DESIGN 7/C17).
func (x *Exec) isPureRole(tg target) bool {
	return tg.vtype != nil && x.pureRoleName(tg.vtype) != ""
}

// pureRoleName: "purerole cmp.LessThan" in a contract file declares that
// values of that named function type are pure, total, deterministic functions
// of their arguments.
func (x *Exec) pureRoleName(t types.Type) string {
	nt, ok := t.(*types.Named)
	if !ok {
		return ""
	}
	name := typeName(nt)
	for _, cf := range x.P.Contracts {
		for _, raw := range cf.Raw["purerole"] {
			if strings.TrimSpace(raw) == name {
				return name
			}
		}
	}
	return ""
}

// pureFun is the uninterpreted function standing for the application of a
// pure-role function value: (function value, arguments...) -> result.
func (x *Exec) pureFun(role string, args []Term, ret Sort) func(...Term) Term {
	sorts := []Sort{SInt}
	for _, a := range args {
		sorts = append(sorts, a.Sort)
	}
	x.usedTrusted["function values of type "+role+" are pure, total and deterministic (declared role)"] = true
	return x.d.Fun("purerole!"+role, sorts, ret)
}

func (x *Exec) pureApply(cfg *Config, tg target, args []Val) Val {
	role := x.pureRoleName(tg.vtype)
	var ats []Term
	for _, a := range args {
		ats = append(ats, x.tv(a))
	}
	if tg.sig.Results().Len() != 1 {
		unsupported("pure role %s with %d results", role, tg.sig.Results().Len())
	}
	rt := tg.sig.Results().At(0).Type()
	f := x.pureFun(role, ats, x.sortOf(rt))
	return TV{T: f(append([]Term{*tg.unknown}, ats...)...)}
}

// traceCall counts executions of unknown function values (ghost calls(f)).
func (x *Exec) traceCall(cfg *Config, tg target, args []Val) {
	if tg.unknown == nil {
		return
	}
	name := callsArrName(tg.sig)
	if x.c != nil && ghostExplicit(x.c) && x.frameReady && len(cfg.loops) > 0 && !x.frameWhole[name] {
		// inside a loop the havoc at the loop head trusts the ghost frame
		var in []Term
		for _, l := range x.frameLocs[name] {
			in = append(in, Eq(*tg.unknown, l))
		}
		x.oblige(cfg, "call-in-frame", "call of "+tg.name+" is listed in the modifies clause (calls(...))", Or(in...), nil, token.NoPos)
	}
	arr := x.heapGet(cfg.st, name, SArr(SInt, x.idxSort()))
	cfg.st.heap[name] = Store(arr, *tg.unknown, Add(Select(arr, *tg.unknown), x.intLit(1, x.idxSort())))
}

// ---------------------------------------------------------------------------
// return / panic / defers
// ---------------------------------------------------------------------------

func (x *Exec) doReturn(cfg *Config, f *Frame, res []Val) (end bool) {
	if len(cfg.frames) == 1 {
		for _, r := range res {
			if tv, ok := r.(TV); ok {
				if _, desc, isG := x.guardedSub(cfg, tv.T); isG {
					// a pointer into mutex-protected memory handed to the caller
					// is used after the lock is released
					x.oblige(cfg, "guarded-escape", "returns the address of "+desc, False, []string{"C13"}, f.block.Instrs[f.idx].Pos())
				}
			}
		}
		for k, r := range res {
			x.escapeChecks(cfg, r, f.block.Instrs[f.idx].Pos(), 0)
			if k < x.fn.Signature.Results().Len() {
				x.escapeScan(cfg, r, x.fn.Signature.Results().At(k).Type(), f.block.Instrs[f.idx].Pos(), 0, map[string]bool{})
			}
		}
		x.exitChecks(cfg, f, res)
		cfg.frames = nil
		return true
	}
	cfg.frames = cfg.frames[:len(cfg.frames)-1]
	popLoopsOf(cfg, f.depth)
	if f.onReturn != nil {
		f.onReturn(cfg)
	}
	caller := cfg.top()
	if f.watcher != nil {
		x.nextWatcher(cfg, f.depth-1)
		return false
	}
	if f.isDefer {
		return false
	}
	var rv Val
	switch len(res) {
	case 0:
		rv = TupV{}
	case 1:
		rv = res[0]
	default:
		rv = TupV(res)
	}
	if v, ok := f.callInstr.(ssa.Value); ok {
		caller.regs[v] = rv
	}
	caller.idx++
	return false
}

func (x *Exec) startPanic(cfg *Config, f *Frame, val Term, why string, pos token.Pos) {
	cfg.panicking = true
	cfg.panicVal = val
	cfg.trace = append(cfg.trace, "panic: "+why+" at "+x.posOf(pos))
	f.unwinding = true
}

// unwindStep advances exceptional control flow of frame f. It returns true if
// the path ended.
func (x *Exec) unwindStep(cfg *Config, f *Frame) bool {
	if len(f.defers) > 0 {
		d := f.defers[len(f.defers)-1]
		f.defers = f.defers[:len(f.defers)-1]
		x.callDeferred(cfg, f, d)
		return false
	}
	if !cfg.panicking {
		// recovered: resume at the Recover block or return zero values
		f.unwinding = false
		if f.fn.Recover != nil {
			f.prev = f.block
			f.block = f.fn.Recover
			f.idx = 0
			return false
		}
		var res []Val
		rs := f.fn.Signature.Results()
		for i := 0; i < rs.Len(); i++ {
			res = append(res, x.zeroOf(rs.At(i).Type()))
		}
		return x.doReturn(cfg, f, res)
	}
	// propagate
	if len(cfg.frames) == 1 {
		x.panicExitChecks(cfg, f)
		cfg.frames = nil
		return true
	}
	cfg.frames = cfg.frames[:len(cfg.frames)-1]
	popLoopsOf(cfg, f.depth)
	if f.onReturn != nil {
		f.onReturn(cfg)
	}
	caller := cfg.top()
	caller.unwinding = true
	return false
}

// popLoopsOf forgets the active loops of a frame that has returned.
func popLoopsOf(cfg *Config, depth int) {
	if depth == 0 {
		return
	}
	for len(cfg.loops) > 0 && cfg.loops[len(cfg.loops)-1].depth >= depth {
		cfg.loops = cfg.loops[:len(cfg.loops)-1]
	}
}

func (x *Exec) doGo(cfg *Config, f *Frame, i *ssa.Go) {
	tg, args := x.resolveCall(cfg, f, i.Common())
	x.spawn(cfg, f, tg, args, i.Pos())
}

// ---------------------------------------------------------------------------
// builtins
// ---------------------------------------------------------------------------

func (x *Exec) builtin(cfg *Config, f *Frame, tg target, args []Val, pos token.Pos) Val {
	switch tg.builtin {
	case "len":
		return TV{T: x.lenOf(cfg, args[0], tg.sig.Params().At(0).Type())}
	case "cap":
		return TV{T: x.slCap(x.tv(args[0]))}
	case "append":
		return x.appendOp(cfg, args, tg.sig, pos)
	case "copy":
		return x.copyOp(cfg, args, tg.sig, pos)
	case "panic":
		x.startPanic(cfg, f, x.tv(args[0]), "panic()", pos)
		return TupV{}
	case "recover":
		// recover() stops a panic only when called directly by a deferred function
		if cfg.panicking && f.isDefer {
			v := cfg.panicVal
			cfg.panicking = false
			cfg.recovered = true
			return TV{T: v}
		}
		return TV{T: IntLit(0)}
	case "close":
		x.closeChan(cfg, x.tv(args[0]), pos)
		return TupV{}
	case "delete":
		x.mapDelete(cfg, args, tg.sig)
		return TupV{}
	case "print", "println":
		return TupV{}
	case "min", "max":
		a, b := x.tv(args[0]), x.tv(args[1])
		if tg.builtin == "min" {
			return TV{T: Ite(Le(a, b), a, b)}
		}
		return TV{T: Ite(Le(a, b), b, a)}
	}
	unsupported("builtin %s", tg.builtin)
	return nil
}

func (x *Exec) lenOf(cfg *Config, v Val, t types.Type) Term {
	switch u := t.Underlying().(type) {
	case *types.Slice:
		return x.slLen(x.tv(v))
	case *types.Basic:
		if u.Info()&types.IsString != 0 {
			return x.strLen(x.tv(v))
		}
	case *types.Map:
		return x.mapLen(cfg.st, x.tv(v), u)
	case *types.Chan:
		return x.d.Fresh("chanlen", x.idxSort())
	}
	unsupported("len of %s", t)
	return Term{}
}


// applyCallback: a call, inside the function under verification, of a
// function-typed parameter that has a declared callback contract. The
// contract's ghost parameters are bound to the declared expressions evaluated
// in this function's environment.
func (x *Exec) applyCallback(cfg *Config, f *Frame, cb *CallbackDecl, args []Val, dest ssa.Value, isDefer bool, pos token.Pos) ([]*Config, bool) {
	ic := x.lookupIface(cb.Iface)
	if ic == nil {
		unsupported("callback contract %s not found", cb.Iface)
	}
	x.calledContracts["callback "+cb.Iface] = true
	here := x.entryEnv(cfg)
	here.frame = f
	env := &SpecEnv{x: x, cfg: cfg, st: cfg.st, old: cfg.st, vars: map[string]SpecVal{}, pkg: x.pkgOf(ic.Pkg), cf: x.P.Contracts[ic.Pkg]}
	gps := strings.Fields(ic.Options["ghostparams"])
	if len(gps) != len(cb.Args) {
		unsupported("callback %s: %d ghost parameters, %d arguments", cb.Iface, len(gps), len(cb.Args))
	}
	for k, g := range gps {
		env.vars[g] = x.spec(here, cb.Args[k])
	}
	for k, n := range strings.Fields(ic.Options["params"]) {
		if k < len(args) {
			env.vars[n] = x.valToSpec(cfg.st, args[k], nil)
		}
	}
	for _, r := range ic.Requires {
		t := x.specBool(env, r.E)
		x.oblige(cfg, "callback-pre", cb.Param+": "+x.clauseLabel(r), t, nil, pos)
		cfg.st.assume(t)
	}
	oldSt := cfg.st.clone()
	env.old = oldSt
	x.havocModifies(cfg, env, ic)
	if contractTouchesGhostState(ic) {
		x.havocGhostState(cfg.st)
	}
	var res Val = TupV{}
	if dest != nil {
		t := dest.Type()
		if tup, ok := t.(*types.Tuple); ok {
			var tv TupV
			for i := 0; i < tup.Len(); i++ {
				tv = append(tv, x.symbolicOf(cfg.st, x.d.FreshName("cb!"+sanitize(cb.Param)), tup.At(i).Type()))
			}
			res = tv
		} else {
			res = x.symbolicOf(cfg.st, x.d.FreshName("cb!"+sanitize(cb.Param)), t)
		}
	}
	env.st = cfg.st
	env.results = x.resultsToSpec(cfg.st, res, nil, dest)
	for _, e := range ic.Ensures {
		cfg.st.assume(x.specBool(env, e.E))
	}
	x.finishCall(f, dest, res, isDefer)
	return nil, false
}

// checkCallbackArgs: at a call of a function whose contract declares callback
// parameters, the function value passed must be a closure built on this path
// whose own contract implements the callback contract, and the closure's
// captured variables named like the contract's ghost parameters must be the
// values the callee binds them to.
func (x *Exec) checkCallbackArgs(cfg *Config, env *SpecEnv, fn *ssa.Function, c *FuncContract, args []Val, pos token.Pos) {
	if fn == nil {
		return
	}
	for _, cb := range c.Callbacks {
		idx := -1
		for k, p := range fn.Params {
			if p.Name() == cb.Param {
				idx = k
			}
		}
		if idx < 0 || idx >= len(args) {
			unsupported("callback %s: no such parameter of %s", cb.Param, c.Key)
		}
		var clo *CloV
		switch v := args[idx].(type) {
		case *CloV:
			clo = v
		case TV:
			if known, ok := cfg.st.clos[v.T.S]; ok {
				clo = known
			}
		}
		what := c.Key + ": " + cb.Text
		if clo == nil {
			x.oblige(cfg, "callback-conforms", what+" (argument is not a closure built here)", False, nil, pos)
			continue
		}
		body := clo.Fn
		if len(body.Blocks) == 0 && body.Origin() != nil {
			body = body.Origin()
		}
		fc := x.P.ContractFor(body)
		if fc == nil || fc.Implements != cb.Iface {
			x.oblige(cfg, "callback-conforms", what+" ("+fullKey(body)+" is not declared to implement it)", False, nil, pos)
			continue
		}
		ic := x.lookupIface(cb.Iface)
		if ic == nil {
			unsupported("callback contract %s not found", cb.Iface)
		}
		for k, g := range strings.Fields(ic.Options["ghostparams"]) {
			if k >= len(cb.Args) {
				break
			}
			want := x.spec(env, cb.Args[k])
			var got *SpecVal
			for j, fv := range body.FreeVars {
				if fv.Name() == g && j < len(clo.Binds) {
					cenv := &SpecEnv{x: x, cfg: cfg, st: cfg.st, old: cfg.st, vars: map[string]SpecVal{}, pkg: env.pkg, cf: env.cf}
					cenv.vars["&"+g] = x.valToSpec(cfg.st, clo.Binds[j], fv.Type())
					v := x.specIdent(cenv, g)
					got = &v
				}
			}
			if got == nil {
				x.oblige(cfg, "callback-binding", what+": closure does not capture "+g, False, nil, pos)
				continue
			}
			x.oblige(cfg, "callback-binding", what+": captured "+g, Eq(got.T, want.T), nil, pos)
		}
	}
}


// callOrderChecks: contract options about calls of unknown function values.
//   option calls-under f m [; g m2]   every call of f is made while held(m)
//   option calls-after  f g [; ...]    every call of f is made after g was called
//                                      (calls(g) > old(calls(g)))
//   option calls-once f [; g]          f is called at most once per invocation
//                                      (calls(f) == old(calls(f)) at each call)
func (x *Exec) callOrderChecks(cfg *Config, tg target, pos token.Pos) {
	if x.c == nil || tg.unknown == nil || len(cfg.frames) == 0 {
		return
	}
	env := x.entryEnv(cfg)
	env.frame = cfg.frames[0]
	env.old = cfg.old
	// guardFor: is the function being called the one the option names? By name
	// when the call is made under that name; otherwise by value (the function
	// may be called inside an inlined helper, under the helper's parameter
	// name): the obligation is then conditional on the values being equal.
	guardFor := func(name string) (Term, bool) {
		if name == tg.name {
			return True, true
		}
		var t Term
		ok := func() (ok bool) {
			defer func() {
				if r := recover(); r != nil {
					if _, isU := r.(unsupportedErr); isU {
						ok = false
						return
					}
					panic(r)
				}
			}()
			e, err := ParseExpr(name)
			if err != nil {
				return false
			}
			sv, isParam := x.paramOrFreeVar(cfg, name)
			if !isParam {
				sv = x.spec(env, e)
			}
			if sv.Ty != nil && tg.vtype != nil && !types.Identical(sv.Ty, tg.vtype) {
				return false // a value of another type: not the function the option names
			}
			t = sv.T
			return true
		}()
		if !ok || t.Sort != tg.unknown.Sort {
			return Term{}, false
		}
		return Eq(*tg.unknown, t), true
	}
	guard := True
	each := func(opt string, fn func(fs []string)) {
		for _, part := range strings.Split(x.c.Options[opt], ";") {
			fs := strings.Fields(part)
			if len(fs) == 0 {
				continue
			}
			if g, ok := guardFor(fs[0]); ok {
				guard = g
				fn(fs)
				guard = True
			}
		}
	}
	parse := func(src string) Expr {
		e, err := ParseExpr(src)
		if err != nil {
			unsupported("contract option: %v", err)
		}
		return e
	}
	// callsNowOld: the call counter of the function value named by src, now and
	// at entry (the name is resolved NOW: it may be a local assigned after entry)
	callsNowOld := func(src string) (Term, Term) {
		fv := x.spec(env, parse(src))
		name := callsArrName(sigOfType(fv.Ty))
		cur := x.heapGet(env.st, name, SArr(SInt, x.idxSort()))
		old := x.heapGet(env.old, name, SArr(SInt, x.idxSort()))
		return Select(cur, fv.T), Select(old, fv.T)
	}
	each("calls-under", func(fs []string) {
		if len(fs) < 2 {
			return
		}
		x.oblige(cfg, "call-under-lock", fs[0]+" called while held("+fs[1]+")", Implies(guard, x.specBool(env, parse("held("+fs[1]+")"))), nil, pos)
	})
	each("calls-after", func(fs []string) {
		if len(fs) < 2 {
			return
		}
		x.oblige(cfg, "call-order", fs[0]+" called after "+fs[1], func() Term { c, o := callsNowOld(fs[1]); return Implies(guard, Gt(c, o)) }(), nil, pos)
	})
	// option calls-when f <expr> [; ...]: every call of f is made in a state satisfying expr
	for _, part := range strings.Split(x.c.Options["calls-when"], ";") {
		part = strings.TrimSpace(part)
		fs := strings.SplitN(part, " ", 2)
		if len(fs) == 2 {
			if g, ok := guardFor(fs[0]); ok {
				x.oblige(cfg, "call-when", fs[0]+" called when "+fs[1], Implies(g, x.specBool(env, parse(fs[1]))), nil, pos)
			}
		}
	}
	each("calls-once", func(fs []string) {
		x.oblige(cfg, "call-once", fs[0]+" not called before in this invocation", func() Term { c, o := callsNowOld(fs[0]); return Implies(guard, Eq(c, o)) }(), nil, pos)
	})
}


// sigKey / callsArrName: the ghost call counters and histories are kept per
// function signature, so that calls of function values of different types
// (which can never be the same function value) do not interfere.
func sigKey(sig *types.Signature) string {
	if sig == nil {
		return "any"
	}
	var b strings.Builder
	b.WriteString("f")
	for i := 0; i < sig.Params().Len(); i++ {
		b.WriteString("_" + sanitize(typeName(sig.Params().At(i).Type())))
	}
	b.WriteString("__")
	for i := 0; i < sig.Results().Len(); i++ {
		b.WriteString("_" + sanitize(typeName(sig.Results().At(i).Type())))
	}
	return b.String()
}

func callsArrName(sig *types.Signature) string { return "$calls!" + sigKey(sig) }

func sigOfType(t types.Type) *types.Signature {
	if t == nil {
		return nil
	}
	s, _ := t.Underlying().(*types.Signature)
	return s
}


// escapeChecks: a function value handed to the caller (directly or as a field
// of a returned struct value) that needs a lock to be held when it is called -
// a bound method of a guarded object - will be called without it (C13).
func (x *Exec) escapeChecks(cfg *Config, v Val, pos token.Pos, depth int) {
	if depth > 3 {
		return
	}
	var clo *CloV
	switch vv := v.(type) {
	case *CloV:
		clo = vv
	case TV:
		if known, ok := cfg.st.clos[vv.T.S]; ok {
			clo = known
		}
	case SV:
		for _, fv := range vv.F {
			x.escapeChecks(cfg, fv, pos, depth+1)
		}
		return
	case TupV:
		for _, e := range vv {
			x.escapeChecks(cfg, e, pos, depth+1)
		}
		return
	}
	if clo == nil {
		return
	}
	if what := x.P.boundNeedsLock(clo.Fn); what != "" {
		x.oblige(cfg, "guarded-escape", "returns the method value "+what+", which must be called with its lock held", False, []string{"C13"}, pos)
	}
}


// escapeScan: does a value handed to the caller reach, through closures built
// by this invocation and objects allocated by it, a pointer into memory that a
// mutex guards (the address of a guarded embedded struct)? Such a pointer is
// used by the caller after the lock has been released (C13). Bounded depth;
// only objects and closures created on this path are followed.
func (x *Exec) escapeScan(cfg *Config, v Val, ty types.Type, pos token.Pos, depth int, seen map[string]bool) {
	if depth > 6 || v == nil {
		return
	}
	st := cfg.st
	var t Term
	switch vv := v.(type) {
	case *CloV:
		t = x.cloTerm(st, vv)
	case TV:
		t = vv.T
	case SV:
		if s, ok := vv.Ty.Underlying().(*types.Struct); ok {
			for i, fv := range vv.F {
				if i < s.NumFields() {
					x.escapeScan(cfg, fv, s.Field(i).Type(), pos, depth+1, seen)
				}
			}
		}
		return
	default:
		return
	}
	if t.Sort != SInt || seen[t.S] {
		return
	}
	seen[t.S] = true
	if _, desc, ok := x.guardedSub(cfg, t); ok && depth > 0 {
		x.oblige(cfg, "guarded-escape", "a value returned to the caller reaches the address of "+desc+" (through closures / objects built here); it is used after the lock is released", False, []string{"C13"}, pos)
		return
	}
	if clo, ok := st.clos[t.S]; ok {
		for k, fv := range clo.Fn.FreeVars {
			if k >= len(clo.Binds) {
				break
			}
			el := derefType(fv.Type())
			if a, isCell := clo.Binds[k].(AddrV); isCell && a.Kind == aCell && el != nil && !isStructType(el) {
				arr := x.heapGet(st, a.Arr, SArr(SInt, x.sortOf(el)))
				x.escapeScan(cfg, TV{T: Select(arr, a.Base)}, el, pos, depth+1, seen)
			} else {
				x.escapeScan(cfg, clo.Binds[k], fv.Type(), pos, depth+1, seen)
			}
		}
		return
	}
	// objects allocated by this invocation: follow their reference-like fields
	if !strings.HasPrefix(t.S, "new!") || ty == nil {
		return
	}
	el := derefType(ty)
	if el == nil || !isStructType(el) {
		return
	}
	x.scanStructFields(cfg, el, t, pos, depth, seen)
}

func (x *Exec) scanStructFields(cfg *Config, styp types.Type, ref Term, pos token.Pos, depth int, seen map[string]bool) {
	s := styp.Underlying().(*types.Struct)
	for i := 0; i < s.NumFields(); i++ {
		ft := s.Field(i).Type()
		if isStructType(ft) {
			x.scanStructFields(cfg, ft, x.subRef(styp, i, ref), pos, depth+1, seen)
			continue
		}
		switch ft.Underlying().(type) {
		case *types.Pointer, *types.Signature:
		default:
			continue
		}
		_, arr, _ := x.fieldArr(cfg.st, styp, i)
		x.escapeScan(cfg, TV{T: Select(arr, ref)}, ft, pos, depth+1, seen)
	}
}

// paramOrFreeVar: the value of a parameter or captured variable of the function
// under verification, by name - even where a local of the same name shadows it
// (contracts speak about the function's interface).
func (x *Exec) paramOrFreeVar(cfg *Config, name string) (SpecVal, bool) {
	if len(cfg.frames) == 0 {
		return SpecVal{}, false
	}
	f := cfg.frames[0]
	for _, p := range x.fn.Params {
		if p.Name() == name {
			if v, ok := f.regs[p]; ok {
				return x.valToSpec(cfg.st, v, p.Type()), true
			}
		}
	}
	for _, fv := range x.fn.FreeVars {
		if fv.Name() == name {
			if v, ok := f.regs[fv]; ok {
				el := derefType(fv.Type())
				if a, isAddr := v.(AddrV); isAddr && el != nil {
					arr := x.heapGet(cfg.st, a.Arr, SArr(SInt, x.sortOf(el)))
					return SpecVal{T: Select(arr, a.Base), Ty: el}, true
				}
			}
		}
	}
	return SpecVal{}, false
}
