package main

import (
	"fmt"
	"go/constant"
	"go/token"
	"go/types"
	"strings"

	"golang.org/x/tools/go/ssa"
)

// ---------------------------------------------------------------------------
// Spec values
// ---------------------------------------------------------------------------

type SeqExpr struct {
	Len  Term
	At   func(i Term) Term
	Elem types.Type // may be nil (ghost seq of refs / ints)
	Sort Sort
}

type SpecVal struct {
	T   Term
	Ty  types.Type
	Seq *SeqExpr
	SV  *SV
	Lit bool // untyped integer literal: may be coerced
	N   int64
}

type SpecEnv struct {
	x       *Exec
	cfg     *Config
	st      *State
	old     *State
	vars    map[string]SpecVal
	frame   *Frame
	fn      *ssa.Function
	results []SpecVal
	pkg     *types.Package
	cf      *ContractFile
	depth   int
}

func (e *SpecEnv) withState(st *State) *SpecEnv {
	n := *e
	n.st = st
	return &n
}

func (e *SpecEnv) bind(name string, v SpecVal) *SpecEnv {
	n := *e
	n.vars = make(map[string]SpecVal, len(e.vars)+1)
	for k, val := range e.vars {
		n.vars[k] = val
	}
	n.vars[name] = v
	return &n
}

func (x *Exec) valToSpec(st *State, v Val, ty types.Type) SpecVal {
	switch vv := v.(type) {
	case TV:
		return SpecVal{T: vv.T, Ty: ty}
	case SV:
		c := vv
		return SpecVal{SV: &c, Ty: ty}
	case AddrV:
		if vv.Kind == aCell {
			return SpecVal{T: vv.Base, Ty: ty}
		}
	case *CloV:
		return SpecVal{T: x.cloTerm(st, vv), Ty: ty}
	case TupV:
		if len(vv) == 0 {
			return SpecVal{T: True}
		}
	}
	unsupported("spec value of %T", v)
	return SpecVal{}
}

func (x *Exec) pkgOf(short string) *types.Package {
	path := modulePath
	if short != "fun" {
		path = modulePath + "/" + short
	}
	if sp, ok := x.P.Pkgs[path]; ok {
		return sp.Pkg
	}
	return nil
}

// entryEnv builds the environment for the contract of the function under
// verification from its initial frame.
func (x *Exec) entryEnv(cfg *Config) *SpecEnv {
	f := cfg.frames[0]
	env := &SpecEnv{x: x, cfg: cfg, st: cfg.st, old: cfg.st, vars: map[string]SpecVal{}, frame: f, fn: x.fn, pkg: x.pkgOf(x.c.Pkg), cf: x.P.Contracts[x.c.Pkg]}
	for _, p := range x.fn.Params {
		env.vars[p.Name()] = x.valToSpec(cfg.st, f.regs[p], p.Type())
	}
	for _, fv := range x.fn.FreeVars {
		// free variables are cells: expose the current content under the variable's name
		env.vars["&"+fv.Name()] = x.valToSpec(cfg.st, f.regs[fv], fv.Type())
	}
	if x.c.Implements != "" && len(x.fn.Params) > 0 {
		recv := x.fn.Params[0]
		self := x.valToSpec(cfg.st, f.regs[recv], recv.Type())
		env.vars["self"] = self
		for k, n := range x.ifaceParams {
			if k+1 < len(x.fn.Params) {
				p := x.fn.Params[k+1]
				env.vars[n] = x.valToSpec(cfg.st, f.regs[p], p.Type())
			}
		}
	}
	return env
}

// calleeEnv builds the environment for applying a callee's contract.
func (x *Exec) calleeEnv(cfg *Config, fn *ssa.Function, c *FuncContract, args []Val, binds []Val) *SpecEnv {
	env := &SpecEnv{x: x, cfg: cfg, st: cfg.st, old: cfg.st, vars: map[string]SpecVal{}, fn: fn, pkg: x.pkgOf(c.Pkg), cf: x.P.Contracts[c.Pkg]}
	if fn != nil {
		for k, p := range fn.Params {
			if k < len(args) {
				env.vars[p.Name()] = x.valToSpec(cfg.st, args[k], p.Type())
			}
		}
		for k, fv := range fn.FreeVars {
			if k < len(binds) {
				env.vars["&"+fv.Name()] = x.valToSpec(cfg.st, binds[k], fv.Type())
			}
		}
	} else {
		// interface contract: receiver is "self", parameters are named by option params
		if len(args) > 0 {
			env.vars["self"] = x.valToSpec(cfg.st, args[0], nil)
		}
		if ps, ok := c.Options["params"]; ok {
			for k, n := range strings.Fields(ps) {
				if k+1 < len(args) {
					env.vars[n] = x.valToSpec(cfg.st, args[k+1], nil)
				}
			}
		}
	}
	return env
}

// ---------------------------------------------------------------------------
// Expression evaluation
// ---------------------------------------------------------------------------

func (x *Exec) specBool(env *SpecEnv, e Expr) Term {
	v := x.spec(env, e)
	if v.Seq != nil || v.SV != nil || v.T.Sort != SBool {
		unsupported("contract expression %s is not boolean", e.exprString())
	}
	return v.T
}

func (x *Exec) specTerm(env *SpecEnv, e Expr) Term {
	v := x.spec(env, e)
	if v.Seq != nil || v.SV != nil {
		unsupported("contract expression %s is not scalar", e.exprString())
	}
	return v.T
}

func (x *Exec) coerce(a, b SpecVal) (SpecVal, SpecVal) {
	if a.Lit && !b.Lit && b.Seq == nil && b.SV == nil {
		a = SpecVal{T: x.intLit(a.N, b.T.Sort), Ty: b.Ty}
		if b.T.Sort == SBool {
			unsupported("integer literal compared with bool")
		}
	} else if b.Lit && !a.Lit && a.Seq == nil && a.SV == nil {
		b = SpecVal{T: x.intLit(b.N, a.T.Sort), Ty: a.Ty}
	} else if a.Lit && b.Lit {
		a = SpecVal{T: x.intLit(a.N, x.idxSort())}
		b = SpecVal{T: x.intLit(b.N, x.idxSort())}
	}
	// Int vs Real
	if a.Seq == nil && b.Seq == nil && a.SV == nil && b.SV == nil {
		if a.T.Sort == SInt && b.T.Sort == SReal {
			a.T = mk(SReal, "to_real", a.T)
		} else if a.T.Sort == SReal && b.T.Sort == SInt {
			b.T = mk(SReal, "to_real", b.T)
		}
	}
	return a, b
}

func (x *Exec) spec(env *SpecEnv, e Expr) SpecVal {
	switch ee := e.(type) {
	case EInt:
		return SpecVal{T: x.intLit(ee.V, x.idxSort()), Lit: true, N: ee.V}
	case EReal:
		return SpecVal{T: RealLit(ee.V)}
	case EBool:
		if ee.V {
			return SpecVal{T: True}
		}
		return SpecVal{T: False}
	case ENil:
		return SpecVal{T: IntLit(0)}
	case EStr:
		return SpecVal{T: x.strConst(ee.V)}
	case EIdent:
		return x.specIdent(env, ee.Name)
	case EUnary:
		v := x.spec(env, ee.X)
		switch ee.Op {
		case "!":
			return SpecVal{T: Not(v.T)}
		case "-":
			if v.Lit {
				return SpecVal{T: x.intLit(-v.N, x.idxSort()), Lit: true, N: -v.N}
			}
			if v.T.Sort.IsBV() {
				return SpecVal{T: mk(v.T.Sort, "bvneg", v.T), Ty: v.Ty}
			}
			return SpecVal{T: mk(v.T.Sort, "-", v.T), Ty: v.Ty}
		}
	case EBinary:
		return x.specBinary(env, ee)
	case ECond:
		c := x.specBool(env, ee.C)
		a, b := x.coerce(x.spec(env, ee.A), x.spec(env, ee.B))
		if a.Seq != nil || b.Seq != nil {
			sa, sb := a.Seq, b.Seq
			return SpecVal{Seq: &SeqExpr{Len: Ite(c, sa.Len, sb.Len), At: func(i Term) Term { return Ite(c, sa.At(i), sb.At(i)) }, Elem: sa.Elem, Sort: sa.Sort}}
		}
		return SpecVal{T: Ite(c, a.T, b.T), Ty: a.Ty}
	case EField:
		return x.specField(env, ee)
	case EIndex:
		base := x.spec(env, ee.X)
		idx := x.spec(env, ee.I)
		if idx.Lit {
			idx.T = x.intLit(idx.N, x.idxSort())
		}
		if base.Seq != nil {
			return SpecVal{T: base.Seq.At(idx.T), Ty: base.Seq.Elem}
		}
		if base.Ty != nil {
			if sl, ok := base.Ty.Underlying().(*types.Slice); ok {
				return SpecVal{T: x.sliceElem(env.st, base.T, idx.T, sl.Elem()), Ty: sl.Elem()}
			}
			if m, ok := base.Ty.Underlying().(*types.Map); ok {
				// m[k]: the stored value if present, else the zero value
				_, vals, _ := x.mapNames(m)
				ks, vs := x.sortOf(m.Key()), x.sortOf(m.Elem())
				valArr := x.heapGet(env.st, vals, SArr(SInt, SArr(ks, vs)))
				v := Ite(x.mapHas(env.st, base.T, idx.T, m), Select(Select(valArr, base.T), idx.T), x.zeroTerm(m.Elem()))
				return SpecVal{T: v, Ty: m.Elem()}
			}
		}
		unsupported("indexing %s", ee.X.exprString())
	case ESlice:
		base := x.spec(env, ee.X)
		if base.Seq == nil {
			base = x.sliceToSeq(env.st, base)
		}
		s := base.Seq
		lo := x.intLit(0, x.idxSort())
		hi := s.Len
		if ee.Lo != nil {
			lo = x.specIdx(env, ee.Lo)
		}
		if ee.Hi != nil {
			hi = x.specIdx(env, ee.Hi)
		}
		return SpecVal{Seq: &SeqExpr{Len: Sub(hi, lo), At: func(i Term) Term { return s.At(Add(i, lo)) }, Elem: s.Elem, Sort: s.Sort}}
	case ECall:
		return x.specCall(env, ee)
	case EQuant:
		return x.specQuant(env, ee)
	case ESeqLit:
		var elems []Term
		var ety types.Type
		for _, el := range ee.Elems {
			v := x.spec(env, el)
			elems = append(elems, v.T)
			ety = v.Ty
		}
		srt := SInt
		if len(elems) > 0 {
			srt = elems[0].Sort
		}
		return SpecVal{Seq: &SeqExpr{Len: x.intLit(int64(len(elems)), x.idxSort()), At: func(i Term) Term {
			if len(elems) == 0 {
				return x.intLit(0, srt)
			}
			r := elems[len(elems)-1]
			for k := len(elems) - 2; k >= 0; k-- {
				r = Ite(Eq(i, x.intLit(int64(k), x.idxSort())), elems[k], r)
			}
			return r
		}, Elem: ety, Sort: srt}}
	}
	unsupported("contract expression %s", e.exprString())
	return SpecVal{}
}

func (x *Exec) specIdx(env *SpecEnv, e Expr) Term {
	v := x.spec(env, e)
	if v.Lit {
		return x.intLit(v.N, x.idxSort())
	}
	return v.T
}

func (x *Exec) specIdent(env *SpecEnv, name string) SpecVal {
	// captured variable (closure): the content of its cell is authoritative
	// (a register holding an earlier load of it would be stale)
	if cell, ok := env.vars["&"+name]; ok {
		if _, shadow := env.vars[name]; !shadow {
			el := derefType(cell.Ty)
			if el != nil && !isStructType(el) {
				arr := x.heapGet(env.st, x.cellArr(el), SArr(SInt, x.sortOf(el)))
				return SpecVal{T: Select(arr, cell.T), Ty: el}
			}
		}
	}
	if env.frame != nil && env.depth == 0 {
		// inside the body (loop invariants): the current value of a source
		// variable shadows the parameter's entry value
		if _, isParam := env.vars[name]; isParam || true {
			if v, ok := x.localByName(env, name); ok {
				return v
			}
		}
	}
	if v, ok := env.vars[name]; ok {
		return v
	}
	switch name {
	case "result", "result0":
		if len(env.results) > 0 {
			return env.results[0]
		}
		unsupported("result used where no result is available")
	case "result1":
		if len(env.results) > 1 {
			return env.results[1]
		}
	case "result2":
		if len(env.results) > 2 {
			return env.results[2]
		}
	}
	// captured variable (closure): content of the cell
	if cell, ok := env.vars["&"+name]; ok {
		el := derefType(cell.Ty)
		if el != nil && !isStructType(el) {
			arr := x.heapGet(env.st, x.cellArr(el), SArr(SInt, x.sortOf(el)))
			return SpecVal{T: Select(arr, cell.T), Ty: el}
		}
		return SpecVal{T: cell.T, Ty: cell.Ty}
	}
	// local variable by debug name
	if env.frame != nil {
		if v, ok := x.localByName(env, name); ok {
			return v
		}
	}
	// package-level constant or variable
	if env.pkg != nil {
		if obj := env.pkg.Scope().Lookup(name); obj != nil {
			switch o := obj.(type) {
			case *types.Const:
				if o.Val().Kind() == constant.Int {
					n, _ := constant.Int64Val(o.Val())
					return SpecVal{T: x.intLit(n, x.sortOf(o.Type())), Ty: o.Type(), Lit: types.IsInterface(o.Type()), N: n}
				}
				if o.Val().Kind() == constant.String {
					// typed string constants used as errors (ers.Error)
					t := x.strConst(constant.StringVal(o.Val()))
					if _, isBasic := o.Type().(*types.Basic); !isBasic {
						return SpecVal{T: x.boxTerm(o.Type(), t), Ty: o.Type()}
					}
					return SpecVal{T: t, Ty: o.Type()}
				}
				if o.Val().Kind() == constant.Bool {
					if constant.BoolVal(o.Val()) {
						return SpecVal{T: True}
					}
					return SpecVal{T: False}
				}
			case *types.Var:
				gname := "glob!" + pkgShortAny(o.Pkg().Path()) + "." + o.Name()
				t := x.d.Const(gname, x.sortOf(o.Type()))
				if strings.HasPrefix(o.Name(), "Err") || strings.HasPrefix(o.Name(), "err") {
					x.d.Axiom(Lt(t, IntLit(0)))
				}
				return SpecVal{T: t, Ty: o.Type()}
			}
		}
	}
	// qualified names are written pkg_Name in contracts: e.g. io_EOF
	if i := strings.Index(name, "_"); i > 0 {
		if t, ok := x.externGlobal(name[:i], name[i+1:]); ok {
			return t
		}
	}
	unsupported("unknown name %q in contract", name)
	return SpecVal{}
}

func (x *Exec) boxTerm(t types.Type, payload Term) Term {
	box := x.d.Fun("box!"+typeName(t), []Sort{payload.Sort}, SInt)
	unbox := x.d.Fun("unbox!"+typeName(t), []Sort{SInt}, payload.Sort)
	bv := Term{"b", payload.Sort}
	x.d.Axiom(Forall([]Term{bv}, And(Eq(unbox(box(bv)), bv), Lt(box(bv), IntLit(0)), Eq(x.dynTypeFn()(box(bv)), x.typeTag(t))), []Term{box(bv)}))
	return box(payload)
}

func (x *Exec) externGlobal(pkg, name string) (SpecVal, bool) {
	for path, tp := range x.P.TPkgs {
		if shortName(path) != pkg || tp.Types == nil {
			continue
		}
		obj := tp.Types.Scope().Lookup(name)
		if obj == nil {
			continue
		}
		if v, ok := obj.(*types.Var); ok {
			gname := "glob!" + pkgShortAny(path) + "." + name
			t := x.d.Const(gname, x.sortOf(v.Type()))
			if strings.HasPrefix(name, "Err") || name == "EOF" || name == "Canceled" || name == "DeadlineExceeded" {
				x.d.Axiom(Lt(t, IntLit(0)))
			}
			return SpecVal{T: t, Ty: v.Type()}, true
		}
		if c, ok := obj.(*types.Const); ok && c.Val().Kind() == constant.String {
			t := x.strConst(constant.StringVal(c.Val()))
			if _, isBasic := c.Type().(*types.Basic); !isBasic {
				return SpecVal{T: x.boxTerm(c.Type(), t), Ty: c.Type()}, true
			}
			return SpecVal{T: t, Ty: c.Type()}, true
		}
	}
	return SpecVal{}, false
}

// localByName resolves a source-level local variable at the current position
// of the frame: phis of the current block first, then the closest dominating
// definition carrying that debug name.
func (x *Exec) localByName(env *SpecEnv, name string) (SpecVal, bool) {
	f := env.frame
	if f.block != nil {
		for _, in := range f.block.Instrs {
			phi, ok := in.(*ssa.Phi)
			if !ok {
				break
			}
			if phi.Comment == name {
				if v, ok := f.regs[phi]; ok {
					return x.valToSpec(env.st, v, phi.Type()), true
				}
			}
		}
	}
	// a local kept in a cell (captured by a closure / address taken): the
	// variable's value is the current content of the cell, not one of the
	// loads recorded for it
	for _, b := range f.fn.Blocks {
		for _, in := range b.Instrs {
			if al, ok := in.(*ssa.Alloc); ok && al.Comment == name {
				if v, bound := f.regs[al]; bound {
					el := derefType(al.Type())
					if a, isAddr := v.(AddrV); isAddr {
						arr := x.heapGet(env.st, a.Arr, SArr(SInt, x.sortOf(el)))
						return SpecVal{T: Select(arr, a.Base), Ty: el}, true
					}
					return x.valToSpec(env.st, v, al.Type()), true
				}
			}
		}
	}
	var best ssa.Value
	instrIndex := func(in ssa.Instruction) int {
		for k, i2 := range in.Block().Instrs {
			if i2 == in {
				return k
			}
		}
		return -1
	}
	// later(a, b): a is defined after b on every path to the current block
	later := func(a, b ssa.Value) bool {
		ai, aok := a.(ssa.Instruction)
		bi, bok := b.(ssa.Instruction)
		if !aok || ai.Block() == nil {
			return false
		}
		if !bok || bi.Block() == nil {
			return true // parameters / constants come first
		}
		if ai.Block() == bi.Block() {
			return instrIndex(ai) > instrIndex(bi)
		}
		return bi.Block().Dominates(ai.Block())
	}
	for _, v := range x.names[name] {
		if _, bound := f.regs[v]; !bound {
			if _, isConst := v.(*ssa.Const); !isConst {
				continue
			}
		}
		if in, isInstr := v.(ssa.Instruction); isInstr && in.Block() != nil {
			if in.Parent() != f.fn {
				continue
			}
			if f.block != nil && !in.Block().Dominates(f.block) {
				continue
			}
			if f.block == in.Block() && instrIndex(in) >= f.idx {
				continue // not yet executed at this position
			}
		}
		if best == nil || later(v, best) {
			best = v
		}
	}
	if best != nil {
		if c, ok := best.(*ssa.Const); ok {
			return x.valToSpec(env.st, x.constVal(c), c.Type()), true
		}
		return x.valToSpec(env.st, f.regs[best], best.Type()), true
	}
	return SpecVal{}, false
}

func (x *Exec) specBinary(env *SpecEnv, ee EBinary) SpecVal {
	switch ee.Op {
	case "&&":
		return SpecVal{T: And(x.specBool(env, ee.L), x.specBool(env, ee.R))}
	case "||":
		return SpecVal{T: Or(x.specBool(env, ee.L), x.specBool(env, ee.R))}
	case "==>":
		return SpecVal{T: Implies(x.specBool(env, ee.L), x.specBool(env, ee.R))}
	case "<==>":
		return SpecVal{T: Eq(x.specBool(env, ee.L), x.specBool(env, ee.R))}
	}
	a, b := x.coerce(x.spec(env, ee.L), x.spec(env, ee.R))
	if a.Seq != nil || b.Seq != nil {
		if a.Seq == nil {
			a = x.sliceToSeq(env.st, a)
		}
		if b.Seq == nil {
			b = x.sliceToSeq(env.st, b)
		}
		sa, sb := a.Seq, b.Seq
		switch ee.Op {
		case "==", "!=":
			i := x.d.Fresh("qi", x.idxSort())
			// bound variable must not be a declared constant: use a plain symbol
			iv := Term{"qi!" + fmt.Sprint(len(x.d.order)), x.idxSort()}
			_ = i
			eq := And(Eq(sa.Len, sb.Len), Forall([]Term{iv}, Implies(And(Le(x.intLit(0, x.idxSort()), iv), Lt(iv, sa.Len)), Eq(sa.At(iv), sb.At(iv)))))
			if ee.Op == "!=" {
				eq = Not(eq)
			}
			return SpecVal{T: eq}
		case "+":
			return SpecVal{Seq: &SeqExpr{Len: Add(sa.Len, sb.Len), At: func(i Term) Term { return Ite(Lt(i, sa.Len), sa.At(i), sb.At(Sub(i, sa.Len))) }, Elem: sa.Elem, Sort: sa.Sort}}
		}
		unsupported("sequence operator %s", ee.Op)
	}
	if a.SV != nil || b.SV != nil {
		unsupported("struct values in contract operator %s", ee.Op)
	}
	l, r := a.T, b.T
	if l.Sort != r.Sort {
		unsupported("contract operator %s on sorts %s and %s (%s)", ee.Op, l.Sort, r.Sort, ee.exprString())
	}
	bv := l.Sort.IsBV()
	switch ee.Op {
	case "==":
		return SpecVal{T: Eq(l, r)}
	case "!=":
		return SpecVal{T: Neq(l, r)}
	case "<":
		return SpecVal{T: Lt(l, r)}
	case "<=":
		return SpecVal{T: Le(l, r)}
	case ">":
		return SpecVal{T: Gt(l, r)}
	case ">=":
		return SpecVal{T: Ge(l, r)}
	case "+":
		return SpecVal{T: Add(l, r), Ty: a.Ty}
	case "-":
		return SpecVal{T: Sub(l, r), Ty: a.Ty}
	case "*":
		if !bv && l.Sort == SInt && !isLiteral(l) && !isLiteral(r) {
			x.d.useNL = true
		}
		return SpecVal{T: Mul(l, r), Ty: a.Ty}
	case "/":
		if l.Sort == SReal {
			return SpecVal{T: mk(SReal, "/", l, r), Ty: a.Ty}
		}
		if bv {
			return SpecVal{T: mk(l.Sort, "bvsdiv", l, r), Ty: a.Ty}
		}
		return SpecVal{T: x.truncDiv(l, r), Ty: a.Ty}
	case "%":
		if bv {
			return SpecVal{T: mk(l.Sort, "bvsrem", l, r), Ty: a.Ty}
		}
		return SpecVal{T: Sub(l, Mul(r, x.truncDiv(l, r))), Ty: a.Ty}
	case "<<", ">>", "&", "|", "^":
		if !bv {
			if ee.Op == "<<" && isLiteral(l) {
				// 1 << k in int mode: only for literal results
			}
			unsupported("bit operator %s in int-mode contract", ee.Op)
		}
		op := map[string]string{"<<": "bvshl", ">>": "bvashr", "&": "bvand", "|": "bvor", "^": "bvxor"}[ee.Op]
		return SpecVal{T: mk(l.Sort, op, l, r), Ty: a.Ty}
	}
	unsupported("contract operator %s", ee.Op)
	return SpecVal{}
}

// ghostField finds a declared ghost field for a struct type name.
func (x *Exec) ghostField(structName, field string) *GhostField {
	for _, cf := range x.P.Contracts {
		for _, g := range cf.Ghosts {
			if g.Name == field && (g.Struct == structName || g.Pkg+"."+g.Struct == structName) {
				return g
			}
		}
	}
	return nil
}

func (x *Exec) ghostSort(ty string) Sort {
	switch ty {
	case "int":
		return x.idxSort()
	case "bool":
		return SBool
	case "real":
		return SReal
	}
	return SInt
}

func (x *Exec) specField(env *SpecEnv, ee EField) SpecVal {
	// Type.field is handled by modifies; here X must be a value
	base := x.spec(env, ee.X)
	if base.SV != nil {
		s := base.SV.Ty.Underlying().(*types.Struct)
		for i := 0; i < s.NumFields(); i++ {
			if s.Field(i).Name() == ee.Name {
				return x.valToSpec(env.st, base.SV.F[i], s.Field(i).Type())
			}
		}
		unsupported("no field %s in struct value", ee.Name)
	}
	if base.Ty == nil {
		unsupported("field %s of untyped contract value %s", ee.Name, ee.X.exprString())
	}
	styp := base.Ty
	if el := derefType(styp); el != nil {
		styp = el
	}
	s, ok := styp.Underlying().(*types.Struct)
	if !ok {
		unsupported("field %s of non-struct %s", ee.Name, styp)
	}
	for i := 0; i < s.NumFields(); i++ {
		if s.Field(i).Name() != ee.Name {
			continue
		}
		ft := s.Field(i).Type()
		if isStructType(ft) {
			return SpecVal{T: x.subRef(styp, i, base.T), Ty: ft}
		}
		_, arr, _ := x.fieldArr(env.st, styp, i)
		return SpecVal{T: Select(arr, base.T), Ty: ft}
	}
	// ghost field
	sname := typeName(styp)
	if g := x.ghostField(sname, ee.Name); g != nil {
		return x.ghostRead(env.st, g, base.T)
	}
	unsupported("no field %s in %s", ee.Name, sname)
	return SpecVal{}
}

func ghostArrName(g *GhostField) string { return "ghost!" + g.Pkg + "." + g.Struct + "." + g.Name }

func (x *Exec) ghostRead(st *State, g *GhostField, obj Term) SpecVal {
	name := ghostArrName(g)
	if g.Type == "seq" || strings.HasPrefix(g.Type, "seq") {
		lenArr := x.heapGet(st, name+"!len", SArr(SInt, x.idxSort()))
		atArr := x.heapGet(st, name+"!at", SArr(SInt, SArr(x.idxSort(), SInt)))
		row := Select(atArr, obj)
		return SpecVal{Seq: &SeqExpr{Len: Select(lenArr, obj), At: func(i Term) Term { return Select(row, i) }, Sort: SInt}}
	}
	arr := x.heapGet(st, name, SArr(SInt, x.ghostSort(g.Type)))
	return SpecVal{T: Select(arr, obj)}
}

func (x *Exec) sliceToSeq(st *State, v SpecVal) SpecVal {
	if v.Ty == nil {
		unsupported("cannot view untyped value as sequence")
	}
	sl, ok := v.Ty.Underlying().(*types.Slice)
	if !ok {
		unsupported("cannot view %s as sequence", v.Ty)
	}
	s := v.T
	return SpecVal{Seq: &SeqExpr{Len: x.slLen(s), At: func(i Term) Term { return x.sliceElem(st, s, i, sl.Elem()) }, Elem: sl.Elem(), Sort: x.sortOf(sl.Elem())}}
}

func (x *Exec) resolveTypeText(env *SpecEnv, text string) types.Type {
	if strings.HasPrefix(text, "[]") {
		if el := x.resolveTypeText(env, text[2:]); el != nil {
			return types.NewSlice(el)
		}
		return nil
	}
	ptr := false
	if strings.HasPrefix(text, "*") {
		ptr = true
		text = text[1:]
	}
	var t types.Type
	switch text {
	case "int":
		t = types.Typ[types.Int]
	case "int64":
		t = types.Typ[types.Int64]
	case "int32":
		t = types.Typ[types.Int32]
	case "bool":
		t = types.Typ[types.Bool]
	case "error":
		t = types.Universe.Lookup("error").Type()
	case "float64":
		t = types.Typ[types.Float64]
	default:
		pkg := env.pkg
		name := text
		if i := strings.Index(text, "."); i > 0 {
			pkg = x.pkgOf(text[:i])
			name = text[i+1:]
		}
		if pkg == nil {
			return nil
		}
		obj := pkg.Scope().Lookup(name)
		if obj == nil {
			return nil
		}
		t = obj.Type()
	}
	if ptr {
		return types.NewPointer(t)
	}
	return t
}

func (x *Exec) specQuant(env *SpecEnv, q EQuant) SpecVal {
	x.specDepth++
	defer func() { x.specDepth-- }()
	var vars []Term
	cur := env
	for _, v := range q.Vars {
		var srt Sort
		var ty types.Type
		switch v.Type {
		case "int":
			srt = x.idxSort()
		case "ref":
			srt = SInt
		case "bool":
			srt = SBool
		default:
			ty = x.resolveTypeText(env, v.Type)
			if ty == nil {
				unsupported("unknown quantifier type %s", v.Type)
			}
			if isStructType(ty) {
				ty = types.NewPointer(ty) // objects are quantified by reference
			}
			srt = x.sortOf(ty)
		}
		x.d.fresh["bv!"+v.Name]++
		t := Term{fmt.Sprintf("%s!q%d", v.Name, x.d.fresh["bv!"+v.Name]), srt}
		vars = append(vars, t)
		cur = cur.bind(v.Name, SpecVal{T: t, Ty: ty})
	}
	// explicit triggers: forall x: T :: withtrig(pat1, pat2, ..., body) - each
	// pattern is a separate single-term trigger (used to avoid matching loops)
	if wc, ok := q.Body.(ECall); ok && wc.Fn == "withtrig" && len(wc.Args) >= 2 && q.Forall {
		var pats [][]Term
		for _, pe := range wc.Args[:len(wc.Args)-1] {
			pats = append(pats, []Term{x.specTerm(cur, pe)})
		}
		body := x.specBool(cur, wc.Args[len(wc.Args)-1])
		return SpecVal{T: Forall(vars, body, pats...)}
	}
	// forall a, b :: withmtrig(t1, t2, ..., body): one multi-pattern made of all the terms
	if wc, ok := q.Body.(ECall); ok && wc.Fn == "withmtrig" && len(wc.Args) >= 2 && q.Forall {
		var pat []Term
		for _, pe := range wc.Args[:len(wc.Args)-1] {
			pat = append(pat, x.specTerm(cur, pe))
		}
		body := x.specBool(cur, wc.Args[len(wc.Args)-1])
		return SpecVal{T: Forall(vars, body, pat)}
	}
	body := x.specBool(cur, q.Body)
	if q.Forall {
		if len(vars) == 1 {
			// triggers: every array read indexed exactly by the bound variable
			var pats [][]Term
			for _, p := range selectsOn(body.S, vars[0].S) {
				pats = append(pats, []Term{{S: p}})
			}
			if len(pats) > 0 && len(pats) <= 6 {
				return SpecVal{T: Forall(vars, body, pats...)}
			}
		}
		return SpecVal{T: Forall(vars, body)}
	}
	if len(vars) == 1 {
		var pats [][]Term
		for _, p := range selectsOn(body.S, vars[0].S) {
			pats = append(pats, []Term{{S: p}})
		}
		if len(pats) > 0 && len(pats) <= 6 {
			return SpecVal{T: Exists(vars, body, pats...)}
		}
	}
	return SpecVal{T: Exists(vars, body)}
}

// selectsOn returns the distinct sub-terms "(select A v)" of s whose index is
// exactly the variable v and whose array A does not itself contain v... (A may
// contain v when reads are nested; such terms are still valid triggers).
func selectsOn(s, v string) []string {
	var out []string
	seen := map[string]bool{}
	hasTok := func(t string) bool {
		for i := 0; i+len(v) <= len(t); i++ {
			if t[i:i+len(v)] == v {
				before := i == 0 || strings.ContainsRune(" ()", rune(t[i-1]))
				after := i+len(v) == len(t) || strings.ContainsRune(" ()", rune(t[i+len(v)]))
				if before && after {
					return true
				}
			}
		}
		return false
	}
	for i := 0; i+8 < len(s); i++ {
		if !strings.HasPrefix(s[i:], "(select ") {
			continue
		}
		depth := 0
		for j := i; j < len(s); j++ {
			if s[j] == '(' {
				depth++
			} else if s[j] == ')' {
				depth--
				if depth == 0 {
					t := s[i : j+1]
					// split into array part and index part
					inner := t[len("(select ") : len(t)-1]
					d, cut := 0, -1
					for k := 0; k < len(inner); k++ {
						switch inner[k] {
						case '(':
							d++
						case ')':
							d--
						case ' ':
							if d == 0 && cut < 0 {
								cut = k
							}
						}
					}
					if cut > 0 {
						arr, idx := inner[:cut], inner[cut+1:]
						// the innermost read whose index mentions v and whose array does not
						if hasTok(idx) && !hasTok(arr) && !seen[t] && !strings.Contains(idx, "(select ") {
							seen[t] = true
							out = append(out, t)
						}
					}
					break
				}
			}
		}
	}
	return out
}

func (x *Exec) specCall(env *SpecEnv, c ECall) SpecVal {
	switch c.Fn {
	case "old":
		if len(c.Args) != 1 {
			unsupported("old takes one argument")
		}
		oenv := env.withState(env.old)
		oenv.frame = nil
		return x.spec(oenv, c.Args[0])
	case "len":
		v := x.spec(env, c.Args[0])
		if v.Seq != nil {
			return SpecVal{T: v.Seq.Len}
		}
		if v.Ty != nil {
			switch u := v.Ty.Underlying().(type) {
			case *types.Slice:
				return SpecVal{T: x.slLen(v.T)}
			case *types.Basic:
				if u.Info()&types.IsString != 0 {
					return SpecVal{T: x.strLen(v.T)}
				}
			case *types.Map:
				return SpecVal{T: x.mapLen(env.st, v.T, u)}
			}
		}
		unsupported("len of %s", c.Args[0].exprString())
	case "typeis":
		v := x.spec(env, c.Args[0])
		ty := x.resolveTypeText(env, c.Args[1].(EStr).V)
		if ty == nil {
			unsupported("unknown type %s", c.Args[1].exprString())
		}
		return SpecVal{T: And(Neq(v.T, IntLit(0)), Eq(x.dynTypeFn()(v.T), x.typeTag(ty)))}
	case "implementsSig":
		// same predicate the type switch on an anonymous interface uses
		v := x.spec(env, c.Args[0])
		sig := c.Args[1].(EStr).V
		name := "implements!iface!" + sig
		if len(c.Args) > 2 {
			name = "implements!" + c.Args[2].(EStr).V + "!" + sig
		}
		impl := x.implementsFn(name, sig)
		return SpecVal{T: And(Neq(v.T, IntLit(0)), impl(x.dynTypeFn()(v.T)))}
	case "cast":
		v := x.spec(env, c.Args[0])
		ty := x.resolveTypeText(env, c.Args[1].(EStr).V)
		if ty == nil {
			unsupported("unknown type %s", c.Args[1].exprString())
		}
		return SpecVal{T: v.T, Ty: ty}
	case "errIs":
		a := x.specTerm(env, c.Args[0])
		b := x.specTerm(env, c.Args[1])
		return SpecVal{T: x.errIs(a, b)}
	case "held":
		m := x.specTerm(env, c.Args[0])
		return SpecVal{T: Select(x.heapGet(env.st, "$held", SArr(SInt, SBool)), m)}
	case "unmodified":
		// unmodified(entries...): none of the named locations / arrays changed since old
		var cs []Term
		for _, a := range c.Args {
			for _, t := range x.resolveModEntry(env.withState(env.old), a) {
				cur := x.heapGet(env.st, t.arr, t.sort)
				old := x.heapGet(env.old, t.arr, t.sort)
				if t.loc == nil {
					cs = append(cs, Eq(cur, old))
				} else {
					cs = append(cs, Eq(Select(cur, *t.loc), Select(old, *t.loc)))
				}
			}
		}
		return SpecVal{T: And(cs...)}
	case "i64", "i32", "u64":
		v := x.spec(env, c.Args[0])
		w := 64
		if c.Fn == "i32" {
			w = 32
		}
		if v.Lit {
			if x.mode != "bv" {
				return SpecVal{T: IntLit(v.N)}
			}
			return SpecVal{T: BVLit(uint64(v.N), w)}
		}
		if !v.T.Sort.IsBV() {
			return v
		}
		fw := v.T.Sort.BVWidth()
		switch {
		case fw == w:
			return SpecVal{T: v.T}
		case fw > w:
			return SpecVal{T: mk(SBV(w), fmt.Sprintf("(_ extract %d 0)", w-1), v.T)}
		default:
			return SpecVal{T: mk(SBV(w), fmt.Sprintf("(_ sign_extend %d)", w-fw), v.T)}
		}
	case "calls":
		fv := x.spec(env, c.Args[0])
		f := fv.T
		return SpecVal{T: Select(x.heapGet(env.st, callsArrName(sigOfType(fv.Ty)), SArr(SInt, x.idxSort())), f)}
	case "done":
		c := x.specTerm(env, c.Args[0])
		return SpecVal{T: x.doneNow(env.st, c)}
	case "fresh":
		v := x.specTerm(env, c.Args[0])
		if env.cfg != nil && len(env.cfg.frames) > 0 && env.fn == x.fn {
			return SpecVal{T: Gt(v, x.d.Const("H0!$top", SInt))}
		}
		return SpecVal{T: Gt(v, x.top(env.old))}
	case "visited", "visitcount":
		// ghost state of the (single) map range statement active on this path
		var base string
		for name := range env.st.heap {
			if strings.HasPrefix(name, "$mi!") && strings.HasSuffix(name, "!vis") {
				if base != "" && base != strings.TrimSuffix(name, "!vis") {
					unsupported("%s: more than one map range statement on this path", c.Fn)
				}
				base = strings.TrimSuffix(name, "!vis")
			}
		}
		if base == "" {
			unsupported("%s: no map range statement has been entered", c.Fn)
		}
		if c.Fn == "visitcount" {
			return SpecVal{T: env.st.heap[base+"!cnt"], Ty: types.Typ[types.Int]}
		}
		kv := x.spec(env, c.Args[0])
		kt := kv.T
		if kv.Lit {
			kt = x.intLit(kv.N, env.st.heap[base+"!vis"].Sort.IndexSort())
		}
		return SpecVal{T: Select(env.st.heap[base+"!vis"], kt)}
	case "errAs":
		return SpecVal{T: x.errAs(x.specTerm(env, c.Args[0]), x.specTerm(env, c.Args[1]))}
	case "mark":
		// mark(x): always true; a state-independent term to trigger on
		// (forall m :: withtrig(mark(m), ...) fires for every m whose mark
		// occurs in the query, e.g. through wf(m))
		v := x.specTerm(env, c.Args[0])
		mk := x.d.Fun("mark", []Sort{SInt}, SBool)
		xv := Term{"x!mk", SInt}
		x.d.Axiom(Forall([]Term{xv}, mk(xv), []Term{mk(xv)}))
		return SpecVal{T: mk(v)}
	case "backing":
		// the backing array (an object) of a slice
		v := x.specTerm(env, c.Args[0])
		return SpecVal{T: x.slBase(v)}
	case "known":
		// a non-nil reference that exists now (top-level object or embedded sub-object)
		v := x.specTerm(env, c.Args[0])
		return SpecVal{T: And(Neq(v, IntLit(0)), Le(v, x.top(env.st)))}
	case "allocated":
		v := x.specTerm(env, c.Args[0])
		return SpecVal{T: And(Gt(v, IntLit(0)), Le(v, x.top(env.st)))}
	case "wasallocated":
		// the value of the argument NOW was an allocated object in the old state
		v := x.specTerm(env, c.Args[0])
		return SpecVal{T: And(Gt(v, IntLit(0)), Le(v, x.top(env.old)))}
	case "toreal":
		v := x.spec(env, c.Args[0])
		if v.Lit {
			return SpecVal{T: x.intLit(v.N, SReal)}
		}
		if v.T.Sort == SReal {
			return v
		}
		return SpecVal{T: mk(SReal, "to_real", v.T)}
	case "ite":
		cnd := x.specBool(env, c.Args[0])
		a, b := x.coerce(x.spec(env, c.Args[1]), x.spec(env, c.Args[2]))
		return SpecVal{T: Ite(cnd, a.T, b.T), Ty: a.Ty}
	case "insert":
		// insert(s, k, v): v placed at index k
		s := x.spec(env, c.Args[0]).Seq
		k := x.specIdx(env, c.Args[1])
		v := x.specTerm(env, c.Args[2])
		if s == nil {
			unsupported("insert on non-seq")
		}
		return SpecVal{Seq: &SeqExpr{Len: Add(s.Len, x.intLit(1, x.idxSort())), At: func(i Term) Term {
			return Ite(Lt(i, k), s.At(i), Ite(Eq(i, k), v, s.At(Sub(i, x.intLit(1, x.idxSort())))))
		}, Elem: s.Elem, Sort: s.Sort}}
	case "remove":
		s := x.spec(env, c.Args[0]).Seq
		k := x.specIdx(env, c.Args[1])
		if s == nil {
			unsupported("remove on non-seq")
		}
		return SpecVal{Seq: &SeqExpr{Len: Sub(s.Len, x.intLit(1, x.idxSort())), At: func(i Term) Term {
			return Ite(Lt(i, k), s.At(i), s.At(Add(i, x.intLit(1, x.idxSort()))))
		}, Elem: s.Elem, Sort: s.Sort}}
	case "swap":
		// swap(s, i, j): the sequence with positions i and j exchanged
		sq := x.spec(env, c.Args[0]).Seq
		i := x.specIdx(env, c.Args[1])
		j := x.specIdx(env, c.Args[2])
		if sq == nil {
			unsupported("swap on non-seq")
		}
		return SpecVal{Seq: &SeqExpr{Len: sq.Len, At: func(k Term) Term {
			return Ite(Eq(k, i), sq.At(j), Ite(Eq(k, j), sq.At(i), sq.At(k)))
		}, Elem: sq.Elem, Sort: sq.Sort}}
	case "seqof":
		v := x.spec(env, c.Args[0])
		return x.sliceToSeq(env.st, v)
	case "callret", "callret0", "callret1":
		// callret0(f, k) / callret1(f, k): first / second result of the k-th
		// call of the unknown function value f (ghost call history)
		f := x.spec(env, c.Args[0])
		k := x.specIdx(env, c.Args[1])
		pos := 0
		if c.Fn == "callret1" {
			pos = 1
		}
		if f.Ty == nil {
			unsupported("callret: untyped function value")
		}
		sig, ok := f.Ty.Underlying().(*types.Signature)
		if !ok || sig.Results().Len() <= pos {
			unsupported("callret: %s has no result %d", c.Args[0].exprString(), pos)
		}
		rt := sig.Results().At(pos).Type()
		srt := x.sortOf(rt)
		name := fmt.Sprintf("$callret!%d!%s!%s", pos, srt, sigKey(sig))
		arr := x.heapGet(env.st, name, SArr(SInt, SArr(x.idxSort(), srt)))
		return SpecVal{T: Select(Select(arr, f.T), k), Ty: rt}
	case "haskey":
		// haskey(m, k): k is a key of the Go map m
		mv := x.spec(env, c.Args[0])
		k := x.spec(env, c.Args[1])
		m, ok := mv.Ty.Underlying().(*types.Map)
		if !ok {
			unsupported("haskey on non-map %s", c.Args[0].exprString())
		}
		if k.Lit {
			k.T = x.intLit(k.N, x.sortOf(m.Key()))
		}
		return SpecVal{T: x.mapHas(env.st, mv.T, k.T, m)}
	case "atomicval":
		o := x.specTerm(env, c.Args[0])
		return SpecVal{T: Select(x.heapGet(env.st, "$atomic", SArr(SInt, x.idxSort())), o)}
	case "atomicbool":
		o := x.specTerm(env, c.Args[0])
		return SpecVal{T: Select(x.heapGet(env.st, "$atomicb", SArr(SInt, SBool)), o)}
	case "closureof":
		// closureof(v, "WaitChannel$1"): v is, on this path, a closure of the
		// function whose key ends in the given name (decided by the engine's
		// closure registry: true only for closures built on this path)
		v := x.spec(env, c.Args[0])
		want := c.Args[1].(EStr).V
		if clo, ok := env.st.clos[v.T.S]; ok && strings.HasSuffix(fullKey(clo.Fn), want) {
			return SpecVal{T: True}
		}
		return SpecVal{T: False}
	case "closurevar":
		// closurevar(v, "ch"): the current content of the variable captured
		// under that name by the closure v
		v := x.spec(env, c.Args[0])
		name := c.Args[1].(EStr).V
		clo, ok := env.st.clos[v.T.S]
		if !ok {
			return SpecVal{T: x.d.Fresh("closurevar!unknown", SInt)}
		}
		body := clo.Fn
		for k, fv := range body.FreeVars {
			if fv.Name() == name && k < len(clo.Binds) {
				cenv := &SpecEnv{x: x, cfg: env.cfg, st: env.st, old: env.old, vars: map[string]SpecVal{}, pkg: env.pkg, cf: env.cf}
				cenv.vars["&"+name] = x.valToSpec(env.st, clo.Binds[k], fv.Type())
				return x.specIdent(cenv, name)
			}
		}
		return SpecVal{T: x.d.Fresh("closurevar!unknown", SInt)}
	case "recvready":
		// a blocking receive / select case on this channel was enabled on this path
		ch := x.specTerm(env, c.Args[0])
		return SpecVal{T: Select(x.heapGet(env.st, "$recvready", SArr(SInt, SBool)), ch)}
	case "closedch":
		ch := x.specTerm(env, c.Args[0])
		return SpecVal{T: Select(x.heapGet(env.st, "$closed", SArr(SInt, SBool)), ch)}
	case "sortperm", "sortinv":
		// the permutation applied by the most recent sort.Slice[Stable] on
		// this path (position after -> position before) and its inverse
		k := x.specIdx(env, c.Args[0])
		return SpecVal{T: Select(x.heapGet(env.st, "$"+c.Fn, SArr(x.idxSort(), x.idxSort())), k), Ty: types.Typ[types.Int]}
	case "oncedone":
		o := x.specTerm(env, c.Args[0])
		return SpecVal{T: Select(x.heapGet(env.st, "$oncedone", SArr(SInt, SBool)), o)}
	case "apply":
		// apply(f, args...): application of a pure-role function value
		fv := x.spec(env, c.Args[0])
		if fv.Ty == nil {
			unsupported("apply: untyped function value %s", c.Args[0].exprString())
		}
		role := x.pureRoleName(fv.Ty)
		if role == "" {
			unsupported("apply: %s is not of a declared pure role type", c.Args[0].exprString())
		}
		sig, ok := fv.Ty.Underlying().(*types.Signature)
		if !ok || sig.Results().Len() != 1 {
			unsupported("apply: bad signature")
		}
		var ats []Term
		for _, a := range c.Args[1:] {
			ats = append(ats, x.specTerm(env, a))
		}
		f := x.pureFun(role, ats, x.sortOf(sig.Results().At(0).Type()))
		return SpecVal{T: f(append([]Term{fv.T}, ats...)...), Ty: sig.Results().At(0).Type()}
	case "waitkind":
		// waitkind("take"): is this path verified for / called by a waiter of that kind?
		cfg := env.cfg
		if cfg == nil {
			cfg = x.curCfg
		}
		if x.kindOf(cfg) == c.Args[0].(EStr).V {
			return SpecVal{T: True}
		}
		return SpecVal{T: False}
	}
	// pure Go function under contract, used as a spec function
	if pc, pfn := x.findPure(env, c.Fn); pc != nil {
		var args []Term
		for k, a := range c.Args {
			v := x.spec(env, a)
			if v.Lit && k < len(pfn.Params) {
				v.T = x.intLit(v.N, x.sortOf(pfn.Params[k].Type()))
			}
			args = append(args, v.T)
		}
		return SpecVal{T: x.pureTerm(pfn, args), Ty: pfn.Signature.Results().At(0).Type()}
	}
	// user predicate / spec function
	if pd := x.findPred(env, c.Fn); pd != nil {
		if env.depth > 24 {
			unsupported("predicate expansion too deep at %s", c.Fn)
		}
		if len(pd.Params) != len(c.Args) {
			unsupported("predicate %s arity", c.Fn)
		}
		penv := &SpecEnv{x: x, cfg: env.cfg, st: env.st, old: env.old, vars: map[string]SpecVal{}, pkg: x.pkgOf(pd.Pkg), cf: x.P.Contracts[pd.Pkg], depth: env.depth + 1, results: env.results}
		for k, p := range pd.Params {
			av := x.spec(env, c.Args[k])
			if p.Type != "seq" && p.Type != "int" && p.Type != "ref" && p.Type != "bool" && p.Type != "real" {
				if ty := x.resolveTypeText(penv, p.Type); ty != nil {
					av.Ty = ty
				}
			}
			if av.Lit {
				av = SpecVal{T: x.intLit(av.N, x.idxSort())}
			}
			penv.vars[p.Name] = av
		}
		return x.spec(penv, pd.Body)
	}
	// uninterpreted function declared with "ufun"
	if uf, ok := x.ufun(env, c.Fn); ok {
		var args []Term
		for k, a := range c.Args {
			v := x.spec(env, a)
			if v.Lit {
				v.T = x.intLit(v.N, uf.args[k])
			}
			args = append(args, v.T)
		}
		return SpecVal{T: uf.apply(args...)}
	}
	unsupported("unknown contract function %s", c.Fn)
	return SpecVal{}
}

// findPure: a function of the current package whose contract says "pure".
func (x *Exec) findPure(env *SpecEnv, name string) (*FuncContract, *ssa.Function) {
	if env.cf == nil {
		return nil, nil
	}
	for key, c := range env.cf.Funcs {
		if !c.Pure {
			continue
		}
		short := key
		if i := strings.LastIndex(key, "."); i >= 0 {
			short = key[i+1:]
		}
		if short == name {
			if fn, ok := x.P.Funcs[env.cf.Pkg+"."+key]; ok && fn.Signature.Results().Len() == 1 {
				return c, fn
			}
		}
	}
	return nil, nil
}

// pureTerm is the value a pure function returns for these arguments: an
// uninterpreted function of the arguments (the parts of the heap it reads are
// assumed immutable after construction; listed as an assumption).
func (x *Exec) pureTerm(fn *ssa.Function, args []Term) Term {
	var sorts []Sort
	for _, a := range args {
		sorts = append(sorts, a.Sort)
	}
	ret := x.sortOf(fn.Signature.Results().At(0).Type())
	x.usedTrusted["pure function "+fullKey(fn)+" used as a spec function: result depends only on its arguments and on fields that are immutable after construction"] = true
	return x.d.Fun("pf!"+fullKey(fn), sorts, ret)(args...)
}

type ufunDecl struct {
	args  []Sort
	ret   Sort
	apply func(...Term) Term
}

func (x *Exec) ufun(env *SpecEnv, name string) (ufunDecl, bool) {
	for _, cf := range x.P.Contracts {
		for _, raw := range cf.Raw["ufun"] {
			// ufun name(int, ref) bool
			op := strings.Index(raw, "(")
			cp := strings.Index(raw, ")")
			if op < 0 || cp < 0 || strings.TrimSpace(raw[:op]) != name {
				continue
			}
			var args []Sort
			for _, a := range strings.Split(raw[op+1:cp], ",") {
				a = strings.TrimSpace(a)
				if a == "" {
					continue
				}
				args = append(args, x.ghostSort(a))
			}
			ret := x.ghostSort(strings.TrimSpace(raw[cp+1:]))
			return ufunDecl{args, ret, x.d.Fun("uf!"+name, args, ret)}, true
		}
	}
	return ufunDecl{}, false
}

func (x *Exec) findPred(env *SpecEnv, name string) *PredDef {
	if env.cf != nil {
		if p, ok := env.cf.Preds[name]; ok {
			return p
		}
	}
	// other packages, in a fixed order (a name defined in several packages
	// resolves deterministically; contract files should avoid such clashes)
	for _, short := range sortedKeys(x.P.Contracts) {
		if p, ok := x.P.Contracts[short].Preds[name]; ok {
			return p
		}
	}
	return nil
}

func (x *Exec) errIs(a, b Term) Term {
	f := x.d.Fun("errors.Is", []Sort{SInt, SInt}, SBool)
	e := Term{"e", SInt}
	t := Term{"t", SInt}
	x.d.Axiom(Forall([]Term{e}, Implies(Neq(e, IntLit(0)), f(e, e)), []Term{f(e, e)}))
	x.d.Axiom(Forall([]Term{t}, Implies(Neq(t, IntLit(0)), Not(f(IntLit(0), t))), []Term{f(IntLit(0), t)}))
	return f(a, b)
}

func (x *Exec) assumeGlobalAxioms(st *State) {
	for _, cf := range x.P.Contracts {
		for _, ax := range cf.Axioms {
			env := &SpecEnv{x: x, st: st, old: st, vars: map[string]SpecVal{}, pkg: x.pkgOf(cf.Pkg), cf: cf}
			func() {
				defer func() {
					if r := recover(); r != nil {
						if _, ok := r.(unsupportedErr); ok {
							return // axiom not expressible in this mode: skipped
						}
						panic(r)
					}
				}()
				st.assume(x.specBool(env, ax.E))
			}()
		}
	}
}

// ---------------------------------------------------------------------------
// Contract application at call sites
// ---------------------------------------------------------------------------

func (x *Exec) clauseLabel(c *Clause) string {
	if c.Name != "" {
		return c.Name
	}
	return c.Text
}

func (x *Exec) clauseProps(c *Clause, def []string) []string {
	if len(c.Props) > 0 {
		return c.Props
	}
	return def
}

func (x *Exec) applyContract(cfg *Config, f *Frame, fn *ssa.Function, c *FuncContract, args []Val, binds []Val, dest ssa.Value, isDefer bool, pos token.Pos) ([]*Config, bool) {
	x.calledContracts[c.Pkg+"."+c.Key] = true
	if c.Mode != x.mode && c.Mode != "any" && (c.Mode == "bv" || x.mode == "bv") {
		unsupported("call from %s-mode function into %s-mode contract %s", x.mode, c.Mode, c.Key)
	}
	env := x.calleeEnv(cfg, fn, c, args, binds)
	x.waitCallCheck(cfg, fn, c, args, pos)
	if ks := strings.Fields(c.Options["waitkinds"]); len(ks) > 0 {
		ok := false
		for _, k := range ks {
			if k == x.kindOf(cfg) {
				ok = true
			}
		}
		if !ok {
			unsupported("call of multi-kind waiter %s from a function of kind %q", c.Key, x.kindOf(cfg))
		}
	}
	x.checkCallbackArgs(cfg, env, fn, c, args, pos)
	for _, r := range c.Requires {
		t := x.specBool(env, r.E)
		x.oblige(cfg, "call-pre", c.Key+": "+x.clauseLabel(r), t, nil, pos)
		cfg.st.assume(t)
	}
	// a callee that takes a lock states its contract relative to the start of
	// its atomic section: other goroutines may run before it gets the lock
	if acq, ok := c.Options["acquires"]; ok {
		x.callerSideAcquire(cfg, env, c, acq)
	}
	oldSt := cfg.st.clone()
	env.old = oldSt
	// panics clauses fork an exceptional path
	var forks []*Config
	for _, p := range c.Panics {
		cond := x.specBool(env, p.E)
		if cond.S == "false" {
			continue
		}
		pcfg := cfg.clone()
		pcfg.st.assume(cond)
		pf := pcfg.top()
		pv := x.d.Fresh("panicval", SInt)
		pcfg.st.assume(Neq(pv, IntLit(0)))
		x.startPanic(pcfg, pf, pv, "callee "+c.Key+" panics when "+p.Text, pos)
		forks = append(forks, pcfg)
		cfg.st.assume(Not(cond))
	}
	// a callee that may park on a condition variable states its contract
	// relative to the start of its last atomic section: either it did not
	// park (old = state at the call) or it did (old = an arbitrary state in
	// which other goroutines have run; the caller's section restarts there).
	if c.Options["waits"] == "true" {
		parked := cfg.clone()
		pf := parked.top()
		x.havocModifies(parked, env.withCfg(parked), c)
		x.interfere(parked)
		if x.c != nil && x.c.Options["old"] == "section" {
			parked.old = parked.st.clone()
		}
		more, _ := x.applyContractTail(parked, pf, fn, c, args, binds, dest, isDefer, parked.st.clone())
		forks = append(forks, parked)
		forks = append(forks, more...)
	}
	more, end := x.applyContractTail(cfg, f, fn, c, args, binds, dest, isDefer, oldSt)
	return append(forks, more...), end
}

// callerSideAcquire havocs what the callee's lock protects and assumes its
// invariant: the state in which the callee's atomic section starts.
func (x *Exec) callerSideAcquire(cfg *Config, env *SpecEnv, c *FuncContract, acq string) {
	e, err := ParseExpr(acq)
	if err != nil {
		unsupported("option acquires %q: %v", acq, err)
	}
	fe, ok := e.(EField)
	if !ok {
		unsupported("option acquires wants obj.mutexfield")
	}
	base := x.spec(env, fe.X)
	if base.Ty == nil {
		unsupported("option acquires: untyped base")
	}
	styp := base.Ty
	if el := derefType(styp); el != nil {
		styp = el
	}
	s, ok := styp.Underlying().(*types.Struct)
	if !ok {
		unsupported("option acquires: not a struct")
	}
	for i := 0; i < s.NumFields(); i++ {
		if s.Field(i).Name() != fe.Name {
			continue
		}
		o := &origin{styp, i, base.T}
		ld := x.lockDeclFor(o)
		if ld == nil {
			return
		}
		held := false
		for _, h := range cfg.heldLocks {
			if h.ld == ld && h.o.Base.S == o.Base.S {
				held = true
			}
		}
		if held {
			return // (the callee's !held precondition fails anyway)
		}
		x.havocLock(cfg, ld, o)
		x.interfere(cfg)
		lenv := x.lockEnv(cfg, ld, o)
		for _, inv := range ld.invs {
			cfg.st.assume(x.specBool(lenv, inv.E))
		}
		if x.c != nil && x.c.Options["old"] == "section" {
			cfg.old = cfg.st.clone()
		x.resnapLoopGhost(cfg)
		}
		return
	}
	unsupported("option acquires: no field %s", fe.Name)
}

func (e *SpecEnv) withCfg(cfg *Config) *SpecEnv {
	n := *e
	n.cfg = cfg
	n.st = cfg.st
	return &n
}

func (x *Exec) applyContractTail(cfg *Config, f *Frame, fn *ssa.Function, c *FuncContract, args []Val, binds []Val, dest ssa.Value, isDefer bool, oldSt *State) ([]*Config, bool) {
	env := x.calleeEnv(cfg, fn, c, args, binds)
	env.old = oldSt
	var forks []*Config
	// havoc
	x.havocModifies(cfg, env, c)
	if contractTouchesGhostState(c) && !ghostExplicit(c) {
		// the callee may call unknown functions / change once, atomic or
		// channel state: only its postcondition is known about them (a
		// contract that lists calls(f) / atomics / onces / chans in its
		// modifies clause is havocked precisely, above)
		x.havocGhostState(cfg.st)
	}
	// results
	var sig *types.Signature
	if fn != nil {
		sig = fn.Signature
	} else if len(args) > 0 {
		sig = nil
	}
	var res Val = TupV{}
	if sig != nil {
		res = x.resultVal(cfg, "res!"+sanitize(c.Key), sig)
	} else if dest != nil {
		// interface contract: result type from the call instruction
		t := dest.Type()
		if tup, ok := t.(*types.Tuple); ok {
			var tv TupV
			for i := 0; i < tup.Len(); i++ {
				tv = append(tv, x.symbolicOf(cfg.st, x.d.FreshName("res!"+sanitize(c.Key)), tup.At(i).Type()))
			}
			res = tv
		} else {
			res = x.symbolicOf(cfg.st, x.d.FreshName("res!"+sanitize(c.Key)), t)
		}
	}
	env.st = cfg.st
	env.results = x.resultsToSpec(cfg.st, res, sig, dest)
	if c.Pure && fn != nil && fn.Signature.Results().Len() == 1 {
		var ats []Term
		ok := true
		for _, a := range args {
			if tv, isTV := a.(TV); isTV {
				ats = append(ats, tv.T)
			} else {
				ok = false
			}
		}
		if rt, isTV := res.(TV); ok && isTV {
			cfg.st.assume(Eq(rt.T, x.pureTerm(fn, ats)))
		}
	}
	// a contract whose postcondition speaks about held(m) may have changed
	// whether m is held: forget it for exactly those mutexes before the
	// postcondition is assumed (otherwise "returns holding m" followed by
	// "releases m" contradict each other on the unchanged $held array and
	// every later obligation on that path is vacuous)
	var heldArgs []Term
	var collect func(e Expr, inOld bool)
	collect = func(e Expr, inOld bool) {
		switch ee := e.(type) {
		case ECall:
			if ee.Fn == "held" && len(ee.Args) == 1 && !inOld {
				func() {
					defer func() {
						if r := recover(); r != nil {
							if _, isU := r.(unsupportedErr); !isU {
								panic(r)
							}
						}
					}()
					heldArgs = append(heldArgs, x.specTerm(env, ee.Args[0]))
				}()
				return
			}
			for _, a := range ee.Args {
				collect(a, inOld || ee.Fn == "old")
			}
		case EUnary:
			collect(ee.X, inOld)
		case EBinary:
			collect(ee.L, inOld)
			collect(ee.R, inOld)
		case ECond:
			collect(ee.C, inOld)
			collect(ee.A, inOld)
			collect(ee.B, inOld)
		case EQuant:
			// held() under a binder: not handled (none in use)
		}
	}
	for _, e := range c.Ensures {
		collect(e.E, false)
	}
	if len(heldArgs) > 0 {
		cur := x.heldArr(cfg.st)
		nh := x.d.Fresh("held", cur.Sort)
		m := Term{"m!hv", SInt}
		var ne []Term
		for _, t := range heldArgs {
			ne = append(ne, Neq(m, t))
		}
		cfg.st.assume(Forall([]Term{m}, Implies(And(ne...), Eq(Select(nh, m), Select(cur, m))), []Term{Select(nh, m)}))
		cfg.st.heap["$held"] = nh
	}
	for _, e := range c.Ensures {
		cfg.st.assume(x.specBool(env, e.E))
	}
	x.finishCall(f, dest, res, isDefer)
	return forks, false
}

func (x *Exec) resultsToSpec(st *State, res Val, sig *types.Signature, dest ssa.Value) []SpecVal {
	var out []SpecVal
	typeAt := func(i int) types.Type {
		if sig != nil && i < sig.Results().Len() {
			return sig.Results().At(i).Type()
		}
		if dest != nil {
			if tup, ok := dest.Type().(*types.Tuple); ok && i < tup.Len() {
				return tup.At(i).Type()
			}
			if i == 0 {
				return dest.Type()
			}
		}
		return nil
	}
	if tup, ok := res.(TupV); ok {
		for i, v := range tup {
			out = append(out, x.valToSpec(st, v, typeAt(i)))
		}
		return out
	}
	return []SpecVal{x.valToSpec(st, res, typeAt(0))}
}

// modTarget describes one modifies entry after resolution.
type modTarget struct {
	arr   string
	sort  Sort
	loc   *Term // nil: whole array
	elems bool  // slice backing array
}

func (x *Exec) resolveModifies(env *SpecEnv, c *FuncContract) []modTarget {
	var out []modTarget
	for _, m := range c.Modifies {
		if len(m.Props) > 0 && activeProp != "" && !hasProp(m.Props, activeProp) {
			continue // modifies[Cxx]: this part of the frame is only granted under those properties
		}
		out = append(out, x.resolveModEntry(env, m.E)...)
	}
	return out
}

// activeProp: the property being checked (frames may be property-specific).
var activeProp string

func (x *Exec) resolveModEntry(env *SpecEnv, e Expr) []modTarget {
	switch ee := e.(type) {
	case EField:
		// Type.field  (whole array)  or  value.field (one location)
		if id, ok := ee.X.(EIdent); ok {
			if _, isVar := env.vars[id.Name]; !isVar {
				if _, isCell := env.vars["&"+id.Name]; !isCell {
					if ty := x.resolveTypeText(env, id.Name); ty != nil {
						return x.modFieldOfType(env, ty, ee.Name, nil)
					}
				}
			}
		}
		base := x.spec(env, ee.X)
		if base.Ty == nil {
			unsupported("modifies %s: untyped base", e.exprString())
		}
		styp := base.Ty
		if el := derefType(styp); el != nil {
			styp = el
		}
		b := base.T
		return x.modFieldOfType(env, styp, ee.Name, &b)
	case ECall:
		if ms, params, ok := x.findModset(ee.Fn); ok {
			if len(params) != len(ee.Args) {
				unsupported("modset %s arity", ee.Fn)
			}
			menv := env
			for k, p := range params {
				menv = menv.bind(p, x.spec(env, ee.Args[k]))
			}
			var out []modTarget
			for _, m := range ms {
				out = append(out, x.resolveModEntry(menv, m)...)
			}
			return out
		}
		if ee.Fn == "elems" {
			v := x.spec(env, ee.Args[0])
			sl, ok := v.Ty.Underlying().(*types.Slice)
			if !ok {
				unsupported("elems() of non-slice")
			}
			b := x.slBase(v.T)
			return []modTarget{{arr: x.elemsArr(sl.Elem()), sort: SArr(SInt, SArr(x.idxSort(), x.sortOf(sl.Elem()))), loc: &b, elems: true}}
		}
		if ee.Fn == "mapelems" {
			// mapelems(m): the contents (keys, values, size) of the Go map m
			v := x.spec(env, ee.Args[0])
			m, ok := v.Ty.Underlying().(*types.Map)
			if !ok {
				unsupported("mapelems() of non-map")
			}
			dom, vals, card := x.mapNames(m)
			ks, vs := x.sortOf(m.Key()), x.sortOf(m.Elem())
			b := v.T
			return []modTarget{
				{arr: dom, sort: SArr(SInt, SArr(ks, SBool)), loc: &b},
				{arr: vals, sort: SArr(SInt, SArr(ks, vs)), loc: &b},
				{arr: card, sort: SArr(SInt, x.idxSort()), loc: &b},
			}
		}
		if ee.Fn == "calls" {
			// calls(f): the ghost call counter and history of the function value f
			fv := x.spec(env, ee.Args[0])
			sig := sigOfType(fv.Ty)
			if sig == nil {
				unsupported("modifies calls(%s): not a function value", ee.Args[0].exprString())
			}
			b := fv.T
			out := []modTarget{{arr: callsArrName(sig), sort: SArr(SInt, x.idxSort()), loc: &b}}
			for pos := 0; pos < sig.Results().Len(); pos++ {
				srt := x.sortOf(sig.Results().At(pos).Type())
				out = append(out, modTarget{arr: fmt.Sprintf("$callret!%d!%s!%s", pos, srt, sigKey(sig)), sort: SArr(SInt, SArr(x.idxSort(), srt)), loc: &b})
			}
			return out
		}
		if ee.Fn == "cell" {
			// cell(x): the captured variable x itself
			id := ee.Args[0].(EIdent)
			cell, ok := env.vars["&"+id.Name]
			if !ok {
				unsupported("cell(%s): not a captured variable", id.Name)
			}
			el := derefType(cell.Ty)
			b := cell.T
			return []modTarget{{arr: x.cellArr(el), sort: SArr(SInt, x.sortOf(el)), loc: &b}}
		}
	case EIdent:
		switch ee.Name {
		case "nothing":
			return nil
		case "atomics":
			return []modTarget{{arr: "$atomic", sort: SArr(SInt, x.idxSort())}, {arr: "$atomicb", sort: SArr(SInt, SBool)}}
		case "onces":
			return []modTarget{{arr: "$oncedone", sort: SArr(SInt, SBool)}}
		case "chans":
			return []modTarget{{arr: "$closed", sort: SArr(SInt, SBool)}, {arr: "$recvready", sort: SArr(SInt, SBool)}}
		}
	}
	unsupported("modifies entry %s", e.exprString())
	return nil
}

// findModset looks up "modset name(a, b) = entry, entry, ..." declarations.
func (x *Exec) findModset(name string) ([]Expr, []string, bool) {
	for _, cf := range x.P.Contracts {
		for _, raw := range cf.Raw["modset"] {
			eq := strings.Index(raw, " = ")
			op := strings.Index(raw, "(")
			cp := strings.Index(raw, ")")
			if eq < 0 || op < 0 || cp < 0 || strings.TrimSpace(raw[:op]) != name {
				continue
			}
			var params []string
			for _, p := range strings.Split(raw[op+1:cp], ",") {
				if p = strings.TrimSpace(p); p != "" {
					params = append(params, p)
				}
			}
			var entries []Expr
			for _, m := range splitTopLevel(raw[eq+3:], ',') {
				e, err := ParseExpr(strings.TrimSpace(m))
				if err != nil {
					unsupported("modset %s: %v", name, err)
				}
				entries = append(entries, e)
			}
			return entries, params, true
		}
	}
	return nil, nil, false
}

func (x *Exec) modFieldOfType(env *SpecEnv, styp types.Type, field string, loc *Term) []modTarget {
	s, ok := styp.Underlying().(*types.Struct)
	if !ok {
		unsupported("modifies field %s of non-struct %s", field, styp)
	}
	for i := 0; i < s.NumFields(); i++ {
		if s.Field(i).Name() != field {
			continue
		}
		ft := s.Field(i).Type()
		if isStructType(ft) {
			// all fields of the embedded struct
			var out []modTarget
			es := ft.Underlying().(*types.Struct)
			var sub *Term
			if loc != nil {
				t := x.subRef(styp, i, *loc)
				sub = &t
			}
			for k := 0; k < es.NumFields(); k++ {
				out = append(out, x.modFieldOfType(env, ft, es.Field(k).Name(), sub)...)
			}
			return out
		}
		name, _ := x.fieldArrName(styp, i)
		return []modTarget{{arr: name, sort: SArr(SInt, x.sortOf(ft)), loc: loc}}
	}
	if g := x.ghostField(typeName(styp), field); g != nil {
		name := ghostArrName(g)
		if strings.HasPrefix(g.Type, "seq") {
			return []modTarget{{arr: name + "!len", sort: SArr(SInt, x.idxSort()), loc: loc}, {arr: name + "!at", sort: SArr(SInt, SArr(x.idxSort(), SInt)), loc: loc}}
		}
		return []modTarget{{arr: name, sort: SArr(SInt, x.ghostSort(g.Type)), loc: loc}}
	}
	unsupported("modifies: no field %s in %s", field, typeName(styp))
	return nil
}

func (x *Exec) havocModifies(cfg *Config, env *SpecEnv, c *FuncContract) {
	st := cfg.st
	targets := x.resolveModifies(env, c)
	// group by array
	whole := map[string]bool{}
	for _, t := range targets {
		if t.loc == nil {
			whole[t.arr] = true
		}
	}
	if x.frameReady && len(cfg.loops) > 0 && c.Key != "" && !strings.HasPrefix(c.Key, "lockhavoc") && c.Key != "\x00lock" {
		for _, t := range targets {
			if x.frameWhole[t.arr] || strings.HasPrefix(t.arr, "$") {
				continue
			}
			if t.loc == nil {
				x.oblige(cfg, "call-in-frame", c.Key+" modifies all of "+t.arr, False, nil, token.NoPos)
				continue
			}
			x.oblige(cfg, "call-in-frame", c.Key+": "+t.arr, x.mayWrite(t.arr, *t.loc), nil, token.NoPos)
		}
	}
	done := map[string]bool{}
	for _, t := range targets {
		cur := x.heapGet(st, t.arr, t.sort)
		if whole[t.arr] {
			if done[t.arr] {
				continue
			}
			done[t.arr] = true
			st.heap[t.arr] = x.d.Fresh("hv!"+t.arr, t.sort)
			continue
		}
		fresh := x.d.Fresh("hv!"+t.arr, t.sort.ElemSort())
		st.heap[t.arr] = Store(cur, *t.loc, fresh)
	}
	// a callee that sorts reports its own permutation witnesses
	for _, cl := range c.Ensures {
		if strings.Contains(cl.Text, "sortperm(") || strings.Contains(cl.Text, "sortinv(") {
			st.heap["$sortperm"] = x.d.Fresh("sortperm", SArr(x.idxSort(), x.idxSort()))
			st.heap["$sortinv"] = x.d.Fresh("sortinv", SArr(x.idxSort(), x.idxSort()))
			break
		}
	}
	// callee may allocate
	top := x.top(st)
	ntop := x.d.Fresh("top", SInt)
	st.assume(Ge(ntop, top))
	st.heap["$top"] = ntop
}

// ---------------------------------------------------------------------------
// Exit checks of the function under verification
// ---------------------------------------------------------------------------

func (x *Exec) exitChecks(cfg *Config, f *Frame, res []Val) {
	env := x.entryEnv(cfg)
	env.st = cfg.st
	env.old = cfg.old
	env.frame = nil
	// parameters are evaluated as at entry (Go parameters may be reassigned,
	// but SSA parameters are immutable values)
	sig := x.fn.Signature
	for i, r := range res {
		env.results = append(env.results, x.valToSpec(cfg.st, r, sig.Results().At(i).Type()))
	}
	if x.c.Pure && len(res) == 1 {
		// definition of the spec function: what the body returns
		var ats []Term
		ok := true
		for _, p := range x.fn.Params {
			if tv, isTV := cfg.frames[0].regs[p].(TV); isTV {
				ats = append(ats, tv.T)
			} else {
				ok = false
			}
		}
		if rt, isTV := res[0].(TV); ok && isTV {
			cfg.st.assume(Eq(rt.T, x.pureTerm(x.fn, ats)))
		}
	}
	// ghost updates are simultaneous: every right-hand side is evaluated in
	// the state before any of them
	preGhost := cfg.st.clone()
	for _, gs := range x.c.GhostSets {
		if cfg.ghostDone {
			break // already applied at the Unlock (option ghostsets-at-unlock)
		}
		x.applyGhostSetIn(cfg, env, gs, preGhost)
	}
	for _, ga := range x.c.GhostAlls {
		x.applyGhostAll(cfg, env, ga, preGhost)
	}
	env.st = cfg.st
	for _, e := range x.c.Ensures {
		if e.Name == "" {
			x.obligeInv(cfg, env, e.E, "post", "", x.clauseProps(e, nil), f.block.Instrs[f.idx].Pos(), 1)
			continue
		}
		x.obligeParts(cfg, env, "post", x.clauseLabel(e), e.E, x.clauseProps(e, nil), f.block.Instrs[f.idx].Pos())
	}
	x.frameChecks(cfg, env)
	x.exitPCs = append(x.exitPCs, And(cfg.st.pc...))
}

func (x *Exec) panicExitChecks(cfg *Config, f *Frame) {
	env := x.entryEnv(cfg)
	env.st = cfg.old
	env.old = cfg.old
	env.frame = nil
	var allowed []Term
	for _, p := range x.c.Panics {
		allowed = append(allowed, x.specBool(env, p.E))
	}
	why := "panic"
	if len(cfg.trace) > 0 {
		why = cfg.trace[len(cfg.trace)-1]
	}
	x.oblige(cfg, "no-panic", why, Or(allowed...), nil, token.NoPos)
	// state on exceptional exit: "leaving-unchanged" = frame conditions hold too
	env.st = cfg.st
	for _, e := range x.c.EnsuresPanic {
		x.oblige(cfg, "post-panic", x.clauseLabel(e), x.specBool(env, e.E), x.clauseProps(e, nil), token.NoPos)
	}
	x.frameChecks(cfg, env)
}

// applyGhostSet performs a definitional ghost update "loc == expr" at exit.
func (x *Exec) applyGhostSet(cfg *Config, env *SpecEnv, gs *Clause) {
	x.applyGhostSetIn(cfg, env, gs, cfg.st)
}

// applyGhostAll redefines a ghost field for every object: S.f(x) = expr.
func (x *Exec) applyGhostAll(cfg *Config, env *SpecEnv, ga *Clause, evalSt *State) {
	st, fl, v, ok := parseHead(ga.Name)
	if !ok {
		unsupported("ghostall head %q", ga.Name)
	}
	g := x.ghostField(st, fl)
	if g == nil || strings.HasPrefix(g.Type, "seq") {
		unsupported("ghostall: %s.%s is not a scalar ghost field", st, fl)
	}
	ty := x.resolveTypeText(env, st)
	if ty == nil {
		unsupported("ghostall: unknown type %s", st)
	}
	name := ghostArrName(g)
	srt := x.ghostSort(g.Type)
	xv := Term{"ga!" + v, SInt}
	eenv := env.withState(evalSt).bind(v, SpecVal{T: xv, Ty: types.NewPointer(ty)})
	rhs := x.spec(eenv, ga.E)
	val := rhs.T
	if rhs.Lit {
		val = x.intLit(rhs.N, srt)
	}
	x.heapGet(cfg.st, name, SArr(SInt, srt))
	na := x.d.Fresh("gall!"+name, SArr(SInt, srt))
	cfg.st.assume(Forall([]Term{xv}, Eq(Select(na, xv), val), []Term{Select(na, xv)}))
	cfg.st.heap[name] = na
}

func (x *Exec) applyGhostSetIn(cfg *Config, env *SpecEnv, gs *Clause, evalSt *State) {
	bin := gs.E.(EBinary)
	lhs, ok := bin.L.(EField)
	if !ok {
		unsupported("ghostset target must be obj.field")
	}
	// evaluate the right-hand side in the state before any ghost update of this exit
	env = env.withState(evalSt)
	base := x.spec(env, lhs.X)
	styp := base.Ty
	if el := derefType(styp); el != nil {
		styp = el
	}
	g := x.ghostField(typeName(styp), lhs.Name)
	if g == nil {
		unsupported("ghostset: %s is not a ghost field", lhs.Name)
	}
	rhs := x.spec(env, bin.R)
	name := ghostArrName(g)
	st := cfg.st
	if strings.HasPrefix(g.Type, "seq") {
		if rhs.Seq == nil {
			unsupported("ghostset of seq needs a seq expression")
		}
		lenArr := x.heapGet(st, name+"!len", SArr(SInt, x.idxSort()))
		atArr := x.heapGet(st, name+"!at", SArr(SInt, SArr(x.idxSort(), SInt)))
		row := x.d.Fresh("gseq", SArr(x.idxSort(), SInt))
		iv := Term{"gi", x.idxSort()}
		st.assume(Forall([]Term{iv}, Eq(Select(row, iv), rhs.Seq.At(iv)), []Term{Select(row, iv)}))
		st.heap[name+"!len"] = Store(lenArr, base.T, rhs.Seq.Len)
		st.heap[name+"!at"] = Store(atArr, base.T, row)
		return
	}
	arr := x.heapGet(st, name, SArr(SInt, x.ghostSort(g.Type)))
	v := rhs.T
	if rhs.Lit {
		v = x.intLit(rhs.N, x.ghostSort(g.Type))
	}
	st.heap[name] = Store(arr, base.T, v)
}

// frameChecks proves that nothing outside the modifies clause changed.
func (x *Exec) frameChecks(cfg *Config, env *SpecEnv) {
	noframe := x.c.Options["noframe"] == "true"
	oenv := env.withState(cfg.old)
	targets := x.resolveModifies(oenv, x.c)
	byArr := map[string][]modTarget{}
	for _, t := range targets {
		byArr[t.arr] = append(byArr[t.arr], t)
	}
	top0 := x.d.Const("H0!$top", SInt) // objects allocated by this invocation may change freely
	ghostFramed := ghostExplicit(x.c)
	if !contractTouchesGhostState(x.c) && !ghostFramed {
		// a contract that is silent about calls of unknown functions, once,
		// atomic and channel state promises not to change them (its callers
		// rely on that)
		changed := cfg.st.gepoch != cfg.old.gepoch
		var eqs []Term
		for _, name := range sortedKeys(cfg.st.heap) {
			if !isGhostStateArr(name) {
				continue
			}
			cur := cfg.st.heap[name]
			old, had := cfg.old.heap[name]
			if !had {
				old = x.d.Const("H0!"+name, cur.Sort)
				if cfg.old.gepoch > 0 {
					old = x.d.Const(fmt.Sprintf("G%d!%s", cfg.old.gepoch, name), cur.Sort)
				}
			}
			if cur.S != old.S {
				if strings.HasPrefix(name, "$calls!") || strings.HasPrefix(name, "$callret!") {
					eqs = append(eqs, Eq(cur, old))
				} else {
					// once / atomic / channel state of objects created by this
					// invocation is its own business
					o := Term{"o!gs", SInt}
					eqs = append(eqs, Forall([]Term{o}, Implies(x.preexisting(o), Eq(Select(cur, o), Select(old, o)))))
				}
			}
		}
		if changed {
			x.oblige(cfg, "frame", "ghost call/once/atomic/channel state (contract is silent about it; a callee or loop forgot it wholesale)", False, nil, token.NoPos)
		} else if len(eqs) > 0 {
			x.oblige(cfg, "frame", "ghost call/once/atomic/channel state (contract is silent about it)", And(eqs...), nil, token.NoPos)
		}
	}
	for _, name := range sortedKeys(cfg.st.heap) {
		if strings.HasPrefix(name, "$") && !(ghostFramed && isGhostStateArr(name)) {
			continue
		}
		if noframe && !isGhostStateArr(name) {
			continue
		}
		cur := cfg.st.heap[name]
		old, had := cfg.old.heap[name]
		if !had {
			old = x.d.Const("H0!"+name, cur.Sort)
			if isGhostStateArr(name) && cfg.old.gepoch > 0 {
				old = x.d.Const(fmt.Sprintf("G%d!%s", cfg.old.gepoch, name), cur.Sort)
			}
		}
		if cur.S == old.S {
			continue
		}
		ts := byArr[name]
		wholeOK := false
		for _, t := range ts {
			if t.loc == nil {
				wholeOK = true
			}
		}
		if wholeOK {
			continue
		}
		o := Term{"o!f", SInt}
		// only objects that existed at entry (top-level references are
		// positive; embedded sub-objects are negative and owned by a root)
		root := x.d.Fun("subroot", []Sort{SInt}, SInt)
		conds := []Term{Or(And(Gt(o, IntLit(0)), Le(o, top0)), And(Lt(o, IntLit(0)), Gt(root(o), IntLit(0)), Le(root(o), top0)))}
		if isGhostStateArr(name) {
			conds = []Term{True} // indexed by function values / sync objects of any kind
		}
		for _, t := range ts {
			conds = append(conds, Neq(o, *t.loc))
		}
		goal := Forall([]Term{o}, Implies(And(conds...), Eq(Select(cur, o), Select(old, o))))
		x.oblige(cfg, "frame", name, goal, nil, token.NoPos)
	}
}


func (x *Exec) mapHas(st *State, ref, key Term, m *types.Map) Term {
	dom, _, _ := x.mapNames(m)
	domArr := x.heapGet(st, dom, SArr(SInt, SArr(x.sortOf(m.Key()), SBool)))
	return And(Neq(ref, IntLit(0)), Select(Select(domArr, ref), key))
}

// waitCallCheck: option wait-calls f <cond> [; g <cond>]: the function under
// verification may park only through the listed callees, and only when the
// condition (over its own locals and the callee's parameters, the latter by
// their names) holds at the call - e.g. "the cursor I wait on is MY cursor".
func (x *Exec) waitCallCheck(cfg *Config, fn *ssa.Function, c *FuncContract, args []Val, pos token.Pos) {
	if x.c == nil || fn == nil || len(cfg.frames) != 1 {
		return
	}
	spec := x.c.Options["wait-calls"]
	if spec == "" {
		return
	}
	if c.Options["waitkind"] == "" && c.Options["waitkinds"] == "" && c.Options["waits"] == "" && c.Options["park-requires"] == "" {
		return
	}
	for _, part := range strings.Split(spec, ";") {
		fs := strings.SplitN(strings.TrimSpace(part), " ", 2)
		if len(fs) != 2 || fs[0] != c.Key {
			continue
		}
		e, err := ParseExpr(fs[1])
		if err != nil {
			unsupported("option wait-calls: %v", err)
		}
		env := x.entryEnv(cfg)
		env.frame = cfg.frames[0]
		env.old = cfg.old
		for k, p := range fn.Params {
			if k < len(args) {
				env = env.bind(p.Name(), x.valToSpec(cfg.st, args[k], p.Type()))
			}
		}
		x.oblige(cfg, "wait-call", c.Key+" called with "+fs[1], x.specBool(env, e), nil, pos)
		return
	}
	x.oblige(cfg, "wait-call", "parks through "+c.Key+", which option wait-calls does not list", False, nil, pos)
}
